------------------------------ MODULE Masking -------------------------------
(* C10 - masking an image / a table with a region (MIMAS.mask_plane,       *)
(* mask_file, mask_table, mask_catalog).                                   *)
(*                                                                         *)
(* Images.  An image plane is a function from a set of pixel positions to  *)
(* tokens: Blank (a NaN pixel) or a value token (identity of one IEEE      *)
(* value; "unchanged" = the same token).  In[x] is the membership of the   *)
(* sky position of the CENTRE of pixel x in the region (Region.sky_within  *)
(* semantics of C08 applied to the image WCS: FITS pixel (col+1, row+1) of *)
(* the 0-based array index (row, col)).                                    *)
(*   negate = FALSE : exactly the pixels OUTSIDE the region are blanked    *)
(*   negate = TRUE  : exactly the pixels INSIDE  the region are blanked    *)
(* (polarity of the property text; MIMAS.mask_plane's code agrees, its     *)
(* docstring states the opposite).                                         *)
(*                                                                         *)
(* Tables.  A table is a sequence of rows                                  *)
(*   [key, ra_def, dec_def, in, cols]                                      *)
(* key = identity token of the row, ra_def/dec_def = the coordinate is a   *)
(* defined number, in = membership of (ra, dec) when both are defined,     *)
(* cols = tokens of all other columns.                                     *)
(*   negate = FALSE : exactly the rows INSIDE  the region are removed      *)
(*   negate = TRUE  : exactly the rows not inside are removed              *)
(* A row with an undefined coordinate is never inside.                     *)
EXTENDS Integers, Sequences, FiniteSets

Blank == 0
IsBlank(v) == v = Blank

\* ---------------------------------------------------------------- images
\* is a pixel with membership bit `in` blanked by the region?
Blanked(in, negate) == (~negate /\ ~in) \/ (negate /\ in)

MaskPixel(v, in, negate) ==
    IF IsBlank(v) \/ Blanked(in, negate) THEN Blank ELSE v

MaskImage(img, In, negate) ==
    [x \in DOMAIN img |-> MaskPixel(img[x], In[x], negate)]

\* a cube is a sequence of planes over the same positions; one mask for all
MaskCube(cube, In, negate) ==
    [p \in DOMAIN cube |-> MaskImage(cube[p], In, negate)]

\* The clauses of the property as predicates over an input plane `img`, an
\* observed/produced output plane `out`, restricted to the positions X.
BlankExactlyOn(X, img, In, negate, out) ==
    \A x \in X : IsBlank(out[x]) <=> (IsBlank(img[x]) \/ Blanked(In[x], negate))

UnchangedElsewhereOn(X, img, out) ==
    \A x \in X : ~IsBlank(out[x]) => out[x] = img[x]

\* the results of the two negate settings are complementary on non-blank input
ComplementaryOn(X, img, outF, outT) ==
    \A x \in X : ~IsBlank(img[x]) => (IsBlank(outF[x]) # IsBlank(outT[x]))

\* every plane of a cube gets the same mask (visible where both planes had data)
PlanesIdenticalOn(X, cube, outcube) ==
    \A p, q \in DOMAIN cube : \A x \in X :
        (~IsBlank(cube[p][x]) /\ ~IsBlank(cube[q][x])) =>
            (IsBlank(outcube[p][x]) <=> IsBlank(outcube[q][x]))

\* the mask a result shows on non-blank input
ShownMask(img, out) == {x \in DOMAIN img : ~IsBlank(img[x]) /\ IsBlank(out[x])}

\* ---------------------------------------------------------------- tables
RowInside(row) == row.ra_def /\ row.dec_def /\ row.in

Removed(row, negate) == IF negate THEN ~RowInside(row) ELSE RowInside(row)

Kept(row, negate) == ~Removed(row, negate)

\* the order-preserving subsequence of the rows that are kept
MaskTable(rows, negate) == SelectSeq(rows, LAMBDA r : Kept(r, negate))

Keys(rows)   == [i \in 1..Len(rows) |-> rows[i].key]
KeySet(rows) == {rows[i].key : i \in 1..Len(rows)}
Project(row) == [key |-> row.key, cols |-> row.cols]
Projected(rows) == [i \in 1..Len(rows) |-> Project(rows[i])]

Defined(row) == row.ra_def /\ row.dec_def

\* index of the row with key k in rows (keys are unique); 0 if absent
IndexOf(rows, k) == IF \E i \in 1..Len(rows) : rows[i].key = k
                    THEN CHOOSE i \in 1..Len(rows) : rows[i].key = k
                    ELSE 0

UniqueKeys(rows) == \A i, j \in 1..Len(rows) : rows[i].key = rows[j].key => i = j

\* the clauses over an input table `rows` and an output `out` (rows projected
\* to [key, cols])
RemovedExactly(rows, negate, out) ==   \* rows with defined coordinates
    \A i \in 1..Len(rows) : Defined(rows[i]) =>
        ((rows[i].key \in KeySet(out)) <=> Kept(rows[i], negate))

UndefinedNeverInside(rows, negate, out) ==   \* rows with a NaN coordinate
    \A i \in 1..Len(rows) : ~Defined(rows[i]) =>
        ((rows[i].key \in KeySet(out)) <=> negate = FALSE)

NothingInvented(rows, out) ==
    UniqueKeys(out) /\ KeySet(out) \subseteq KeySet(rows)

\* consecutive result rows come from increasing input positions (transitive)
OrderPreserved(rows, out) ==
    \A i \in 1..(Len(out) - 1) :
        (IndexOf(rows, out[i].key) > 0 /\ IndexOf(rows, out[i+1].key) > 0)
            => IndexOf(rows, out[i].key) < IndexOf(rows, out[i+1].key)

ColumnsUnchanged(rows, out) ==
    \A k \in 1..Len(out) :
        IndexOf(rows, out[k].key) > 0 => out[k].cols = rows[IndexOf(rows, out[k].key)].cols

TablesComplementary(rows, outF, outT) ==
    /\ KeySet(outF) \cup KeySet(outT) = KeySet(rows)
    /\ KeySet(outF) \cap KeySet(outT) = {}
=============================================================================
