----------------------------- MODULE HeaderRules -----------------------------
(***************************************************************************)
(* How a FITS header is interpreted (wcs_helpers.get_pixinfo / get_beam /  *)
(* WCSHelper.from_header, BANE.get_step_size): which keywords give the     *)
(* pixel scale, the pixel area, the synthesized beam and BANE's default    *)
(* grid, and when the header is refused.  Growth of the specification      *)
(* beyond the twenty listed properties - every listed property about       *)
(* fitting, BANE and conversions takes these values for granted.           *)
(*                                                                         *)
(* A header class is a record; the rules are functions of it.  The         *)
(* interpretation is also written as a machine that inspects the keywords  *)
(* in the order the code does, and TLC checks that the machine computes    *)
(* the rules for every class, plus the facts at the end.                   *)
(***************************************************************************)
EXTENDS Naturals, FiniteSets, TLC

Scales == {"cdelt", "cd_diag0", "cd_rot", "cd_two", "both", "none"}
   \* cdelt: CDELT1/2 only; cd_diag0: all four CDi_j, off-diagonal 0; cd_rot: all four, off-diagonal non-zero;
   \* cd_two: CD1_1 and CD2_2 only; both: CDELT and a full CD matrix; none: neither
Confs == [scale : Scales, bmaj : BOOLEAN, bmin : BOOLEAN, bpa : BOOLEAN, beamarg : BOOLEAN]

HasCdelt(c) == c.scale \in {"cdelt", "both"}
HasFullCD(c) == c.scale \in {"cd_diag0", "cd_rot", "both"}
HasDiagCD(c) == HasFullCD(c) \/ c.scale = "cd_two"

PixScale(c) == IF HasCdelt(c) THEN "cdelt" ELSE IF HasDiagCD(c) THEN "cd_diagonal" ELSE "zero"
PixArea(c)  == IF HasCdelt(c) THEN "cdelt_product"
               ELSE IF HasFullCD(c) THEN "cd_determinant"
               ELSE IF c.scale = "cd_two" THEN "cd_diagonal_product" ELSE "zero"
\* the beam of a WCSHelper: an explicit beam wins; the header needs BMAJ and BMIN, BPA defaults to 0
Beam(c) == IF c.beamarg THEN [from |-> "argument", pa |-> "argument"]
           ELSE IF c.bmaj /\ c.bmin THEN [from |-> "header", pa |-> IF c.bpa THEN "bpa" ELSE "zero"]
           ELSE [from |-> "refused", pa |-> "none"]
\* BANE's default grid: 4 beam widths (sqrt(BMAJ*BMIN)) in pixels (sqrt|scale1*scale2|), 16 pixels without a beam
Step(c) == IF ~(c.bmaj /\ c.bmin) THEN "sixteen"
           ELSE IF HasCdelt(c) THEN "four_beams_by_cdelt"
           ELSE IF HasDiagCD(c) THEN "four_beams_by_cd_diagonal" ELSE "sixteen"

Rules(c) == [pixscale |-> PixScale(c), pixarea |-> PixArea(c), beam |-> Beam(c), step |-> Step(c)]

\* ---- the interpretation as the code walks through the keywords -------------------------------
VARIABLES conf, pc, got
vars == <<conf, pc, got>>
Blank == [pixscale |-> "?", pixarea |-> "?", beam |-> [from |-> "?", pa |-> "?"], step |-> "?"]
Init == conf \in Confs /\ pc = "pix1" /\ got = Blank
Set(f, v, l) == got' = [got EXCEPT ![f] = v] /\ pc' = l /\ UNCHANGED conf
Pix1 == pc = "pix1" /\ IF HasCdelt(conf)
                       THEN got' = [got EXCEPT !.pixscale = "cdelt", !.pixarea = "cdelt_product"] /\ pc' = "beam1" /\ UNCHANGED conf
                       ELSE pc' = "pix2" /\ UNCHANGED <<conf, got>>
Pix2 == pc = "pix2" /\ IF HasFullCD(conf)
                       THEN got' = [got EXCEPT !.pixscale = "cd_diagonal", !.pixarea = "cd_determinant"] /\ pc' = "beam1" /\ UNCHANGED conf
                       ELSE pc' = "pix3" /\ UNCHANGED <<conf, got>>
Pix3 == pc = "pix3" /\ IF conf.scale = "cd_two"
                       THEN got' = [got EXCEPT !.pixscale = "cd_diagonal", !.pixarea = "cd_diagonal_product"] /\ pc' = "beam1" /\ UNCHANGED conf
                       ELSE got' = [got EXCEPT !.pixscale = "zero", !.pixarea = "zero"] /\ pc' = "beam1" /\ UNCHANGED conf
Beam1 == pc = "beam1" /\ IF conf.beamarg THEN Set("beam", [from |-> "argument", pa |-> "argument"], "step1")
                         ELSE pc' = "beam2" /\ UNCHANGED <<conf, got>>
Beam2 == pc = "beam2" /\ IF conf.bmaj /\ conf.bmin
                         THEN Set("beam", [from |-> "header", pa |-> IF conf.bpa THEN "bpa" ELSE "zero"], "step1")
                         ELSE Set("beam", [from |-> "refused", pa |-> "none"], "step1")
Step1 == pc = "step1" /\ IF ~(conf.bmaj /\ conf.bmin) THEN Set("step", "sixteen", "done")
                         ELSE IF HasCdelt(conf) THEN Set("step", "four_beams_by_cdelt", "done")
                         ELSE IF HasDiagCD(conf) THEN Set("step", "four_beams_by_cd_diagonal", "done")
                         ELSE Set("step", "sixteen", "done")
Next == Pix1 \/ Pix2 \/ Pix3 \/ Beam1 \/ Beam2 \/ Step1
Spec == Init /\ [][Next]_vars

MachineIsRules == pc = "done" => got = Rules(conf)
\* CDELT wins over a CD matrix when both are present (astropy's WCS does the opposite for the transformation itself)
CdeltWins == \A c \in Confs : c.scale = "both" => PixScale(c) = "cdelt"
\* a rotated CD matrix still reports its diagonal as the pixel scale (the code only warns)
RotationIgnoredInScale == \A c \in Confs : c.scale = "cd_rot" => PixScale(c) = "cd_diagonal" /\ PixArea(c) = "cd_determinant"
\* a header without any scale is NOT refused: scale and area 0
NoScaleIsZero == \A c \in Confs : c.scale = "none" => PixScale(c) = "zero"
\* a header is refused exactly when no beam can be had
RefusedIffNoBeam == \A c \in Confs : (Beam(c).from = "refused") = (~c.beamarg /\ ~(c.bmaj /\ c.bmin))
ASSUME CdeltWins /\ RotationIgnoredInScale /\ NoScaleIsZero /\ RefusedIffNoBeam
=============================================================================
