---------------------------- MODULE RegionPreds -----------------------------
(* State-free predicates of the Region specification: validity of a        *)
(* multi-resolution representation and of exported files, relative to the  *)
(* set S of deepest-level pixels the region covers.                        *)
EXTENDS Sky

CONSTANTS NB,      \* number of level-1 pixels of the modelled sky patch (real sphere: 48)
          D        \* maxdepth of the region under test

\* ---- representation validity (observables named by the property) -------
IdsValid(rep) ==
    \A d \in DOMAIN rep : d \in 1..D /\ rep[d] \subseteq PixOf(NB, d)

\* no patch of sky is represented twice: no stored pixel is an ancestor of
\* (or equal to) another stored pixel
NoOverlap(rep) ==
    \A d1 \in DOMAIN rep, d2 \in DOMAIN rep :
        d1 <= d2 =>
            \A p1 \in rep[d1], p2 \in rep[d2] :
                (d1 = d2 /\ p1 = p2) \/ Anc(p2, d2, d1) # p1

RepArea(rep) ==   \* in units of one deepest-level pixel
    LET RECURSIVE Sum(_)
        Sum(ds) == IF ds = {} THEN 0
                   ELSE LET d == CHOOSE x \in ds : TRUE
                        IN Cardinality(rep[d]) * Weight(d, D) + Sum(ds \ {d})
    IN Sum(DOMAIN rep)

ValidRep(rep, s) ==
    /\ IdsValid(rep)
    /\ NoOverlap(rep)
    /\ Demote(rep, D) = s

\* exports (C12): the file describes exactly S
MocDecode(uniq) == UNION {Desc(UniqPix(u), UniqDepth(u), D) : u \in uniq}

MocOK(order, uniq, s) ==
    /\ order = D
    /\ \A u \in uniq : IsUniq(u) /\ UniqDepth(u) \in 1..D
                        /\ UniqPix(u) \in PixOf(NB, UniqDepth(u))
    /\ MocDecode(uniq) = s

\* DS9 export: one polygon per stored pixel, i.e. the multiset of (level,
\* pixel) pairs drawn is a valid representation of S
RegOK(polys, s) ==      \* polys : set of <<d, p>> pairs matched to polygons
    LET rep == [d \in 1..D |-> {pp[2] : pp \in {q \in polys : q[1] = d}}]
    IN  /\ \A q \in polys : q[1] \in 1..D
        /\ IdsValid(rep)
        /\ Demote(rep, D) = s     \* (overlap-freedom is C08's NoOverlap, checked after normalising calls)

=============================================================================
