---------------------------- MODULE MC_Catalogue ----------------------------
(* Model-checking instance for C18.  TLC explores every catalogue of at    *)
(* most MaxRows rows whose rows are drawn from the row shapes              *)
(*   (type, value class)  in  TypeSet x Vals,                              *)
(* every format of Exts, with and without a column prefix, through         *)
(* BeginSave -> WriteRow* -> EndSave -> Load*, up to MaxSaves saves, and   *)
(* checks the property clauses of Catalogue.tla as invariants.  The same   *)
(* set of shapes is printed (EmitShapes) and realised with seeded values   *)
(* on the real code by harness/c18.py.                                     *)
(*                                                                         *)
(* value classes of a row                                                  *)
(*   typ  : generic doubles (token a, bracketing singles a_lo / a_hi)      *)
(*   nan  : the measured (non err_) numeric fields are NaN                 *)
(*   m1   : the err_ fields hold the -1 'no error' marker                  *)
(*   atyp : integer-valued floats (exact in single precision), -1 errors,  *)
(*          shortest coordinate string, short uuid                         *)
EXTENDS Catalogue, Json
CONSTANTS MaxRows, MaxSaves, Vals, Prefixes, Exts, Emit
ASSUME Exts \subseteq Formats

IsErr(n) == n \in {"err_ra", "err_dec", "err_peak_flux", "err_int_flux",
                   "err_a", "err_b", "err_pa"}

MkCell(n, v, pos) ==
    IF n = "island" THEN <<ToString(pos)>>
    ELSE IF n = "source" THEN <<"0">>
    ELSE IF n = "flags" THEN <<IF v = "atyp" THEN "0" ELSE "5">>
    ELSE IF n = "uuid" THEN <<(IF v = "atyp" THEN "s:u" ELSE "s:uuid-") \o ToString(pos)>>
    ELSE IF n = "ra_str" THEN <<"s:hh:mm:ss.ss">>
    ELSE IF n = "dec_str" THEN <<IF v \in {"atyp", "nan"} THEN "s:XX:XX:XX.XX" ELSE "s:+dd:mm:ss.ss">>
    ELSE IF IsErr(n) THEN
         (IF v \in {"m1", "atyp"} THEN <<MinusOne, MinusOne, MinusOne>>
          ELSE <<"e", "e_lo", "e_hi">>)
    ELSE IF v = "nan" THEN <<NaN, NaN, NaN>>
    ELSE IF v = "atyp" THEN <<"i3", "i3", "i3">>
    ELSE <<"a", "a_lo", "a_hi">>

MkRow(sh, pos) == [t |-> sh.t,
                   c |-> [j \in 1..Len(DocNames(sh.t)) |-> MkCell(DocNames(sh.t)[j], sh.v, pos)]]

RowShapes == [t : TypeSet, v : Vals]
CatShapes == UNION {[1..n -> RowShapes] : n \in 1..MaxRows}
MkCat(shape) == [i \in 1..Len(shape) |-> MkRow(shape[i], i)]

MCInit == Init

MCBegin == /\ Len(saved) < MaxSaves
           /\ \E ext \in Exts, prefix \in Prefixes, shape \in CatShapes :
                 BeginSave("a", ext, prefix, MkCat(shape))
MCLoad == \E f \in DOMAIN store : Load(f)

MCNext == MCBegin \/ WriteRow \/ EndSave \/ MCLoad
MCSpec == MCInit /\ [][MCNext]_vars

\* the generated rows satisfy what the projection promises
ShapesWellFormed ==
    \A k \in 1..Len(saved) : \A i \in 1..Len(saved[k].cat) : RowWellFormed(saved[k].cat[i])

\* a conforming concrete file exists for every stored table and a file that
\* differs from the given tokens in an identity column does not conform
Concrete(tab) == [cols |-> tab.cols,
                  rows |-> [i \in 1..Len(tab.rows) |->
                              [j \in 1..Len(tab.rows[i]) |-> CHOOSE x \in tab.rows[i][j] : TRUE]]]
ConformanceSound ==
    \A f \in DOMAIN view :
        /\ Conforms(store[f], Concrete(view[f]))
        /\ ~Conforms(store[f], [Concrete(view[f]) EXCEPT !.rows[1][1] = "bogus"])
        /\ ~Conforms(store[f], [Concrete(view[f]) EXCEPT !.rows = Tail(@)])

EmitShapes == Emit => PrintT(ToJson([shapes   |-> CatShapes,
                                     names    |-> [t \in TypeSet |-> DocNames(t)],
                                     identity |-> IdentityCols]))
ASSUME EmitShapes
=============================================================================
