------------------------------- MODULE Process -------------------------------
(* One Python process that uses the package: files are (re)written and the   *)
(* public entry points are called on them, in any order.                      *)
(*                                                                            *)
(* What a user relies on: the result of a call is a function of the call's    *)
(* arguments and of the CURRENT contents of the files it reads - never of     *)
(* what the process did before ("history independence").  Every listed        *)
(* property that speaks about one call silently quantifies over this: an      *)
(* image is processed by BANE, then by the source finder, then another image  *)
(* is processed in the same interpreter (scripts, notebooks, the test suite). *)
(*                                                                            *)
(* State                                                                      *)
(*   fs[p]    contents of the file at path p (None = absent)                  *)
(*   hidden   whatever the process remembers between calls.  In the design    *)
(*            "pure" nothing is remembered.  The other designs are the        *)
(*            realistic ways in which the implementation can come to remember *)
(*            something (each one is a change that was seeded into the code   *)
(*            or a defect found in it); they are here so that TLC shows, for  *)
(*            every one of them, a shortest history that exposes it - the     *)
(*            replayed histories must at least contain those shapes.          *)
(*   out      the last call with the result it gave and the result a fresh    *)
(*            process would have given                                        *)
(*                                                                            *)
(* Actions   Write(p, c)  : the file p is replaced by contents c              *)
(*           Call(k, p)   : entry point k is run on path p                    *)
EXTENDS Naturals, Sequences, FiniteSets, TLC

CONSTANTS Calls,        \* entry points
          Contents,     \* file contents (images that differ in size, scaling, projection, frame)
          Paths,        \* file names
          Types,        \* a set of sets: each holds the calls and the contents of one kind of file (an image call
                        \* is made on an image, a region call on a region file, a catalogue call on a table)
          Flagged,      \* contents that make a call raise a process-wide flag (galactic frame)
          Mutators,     \* calls that touch a module-level constant in the design "mutated_constant"
          Accumulating, \* calls that add to a collection owned by an object they create
          Design        \* "pure" | "name_cache" | "sticky_flag" | "accumulator" | "mutated_constant"
                        \* | "first_call_cache"

None == "absent"

Accepts(k, c) == \E T \in Types : k \in T /\ c \in T

VARIABLES fs, hidden, out

vars == <<fs, hidden, out>>

\* the result of call k on contents c in a fresh process, field by field
Fresh(k, c) == [call |-> k, content |-> c, frame |-> (c \in Flagged), holds |-> <<c>>, constant |-> "as_shipped"]

NoHidden == [cache |-> [p \in Paths |-> None], flag |-> FALSE, acc |-> <<>>, constant |-> "as_shipped",
             first |-> None]

Init == /\ fs = [p \in Paths |-> None]
        /\ hidden = NoHidden
        /\ out = [got |-> Fresh("none", None), want |-> Fresh("none", None)]

Write(p, c) ==
    /\ fs' = [fs EXCEPT ![p] = c]
    /\ UNCHANGED <<hidden, out>>

\* what the process computes and what it remembers afterwards
ComputeOn(k, p, c) ==
    CASE Design = "pure" ->
           [res |-> Fresh(k, c), mem |-> hidden]
      [] Design = "name_cache" ->                     \* something read from the file is memoised per file NAME
           LET cc == IF hidden.cache[p] # None THEN hidden.cache[p] ELSE c IN
           [res |-> [Fresh(k, c) EXCEPT !.content = cc],
            mem |-> [hidden EXCEPT !.cache[p] = cc]]
      [] Design = "first_call_cache" ->               \* a memo keyed by too little: the first object served wins
           LET cc == IF hidden.first # None THEN hidden.first ELSE c IN
           [res |-> [Fresh(k, c) EXCEPT !.content = cc],
            mem |-> [hidden EXCEPT !.first = cc]]
      [] Design = "sticky_flag" ->                    \* a class attribute is switched on and never off
           LET f == hidden.flag \/ (c \in Flagged) IN
           [res |-> [Fresh(k, c) EXCEPT !.frame = f],
            mem |-> [hidden EXCEPT !.flag = f]]
      [] Design = "accumulator" ->                    \* a list declared on the class is shared by all instances
           LET a == IF k \in Accumulating THEN Append(hidden.acc, c) ELSE hidden.acc IN
           [res |-> [Fresh(k, c) EXCEPT !.holds = IF k \in Accumulating THEN a ELSE <<c>>],
            mem |-> [hidden EXCEPT !.acc = a]]
      [] Design = "mutated_constant" ->               \* a module-level array is edited in place by one call
           [res |-> [Fresh(k, c) EXCEPT !.constant = hidden.constant],
            mem |-> [hidden EXCEPT !.constant = IF k \in Mutators THEN "edited" ELSE @]]

Call(k, p) ==
    /\ fs[p] # None
    /\ Accepts(k, fs[p])
    /\ LET r == ComputeOn(k, p, fs[p]) IN
         /\ out' = [got |-> r.res, want |-> Fresh(k, fs[p])]
         /\ hidden' = r.mem
    /\ UNCHANGED fs

Next == \/ \E p \in Paths, c \in Contents : Write(p, c)
        \/ \E k \in Calls, p \in Paths : Call(k, p)

Spec == Init /\ [][Next]_vars

TypeOK == /\ fs \in [Paths -> Contents \cup {None}]
          /\ out.got.call \in Calls \cup {"none"}
          /\ out.want.call = out.got.call

\* ---- the property -------------------------------------------------------------------------
HistoryIndependent == out.got = out.want

\* the design "pure" remembers nothing at all
RemembersNothing == hidden = NoHidden
=============================================================================
