----------------------------- MODULE RegionImpl -----------------------------
(***************************************************************************)
(* Implementation-exact model of AegeanTools/regions.py (the algorithms as *)
(* coded): the level -> pixel-set dictionary `pd`, the demotion cache      *)
(* (`cached` = "self.demoted is an alias of pixeldict[maxdepth]"; the only *)
(* other value the code ever gives it is a fresh empty set), _demote_all   *)
(* with its len(demoted)==0 test, _renorm with its loop maxdepth..3,       *)
(* union incl. mixed depth, the set operations, get_area, _uniq.           *)
(*                                                                         *)
(* Design switches reproduce the tree as it was before the fix: commits    *)
(* (FALSE = as originally coded) so that TLC can exhibit the design-level  *)
(* counterexamples; the conformance harness binds the TRUE setting to the  *)
(* repaired code.                                                          *)
(***************************************************************************)
EXTENDS RegionPreds, Sequences, TLC

CONSTANTS FixCacheReset,   \* add_pixels invalidates the demotion cache
          FixUniqRange,    \* _uniq iterates over levels 1..maxdepth (not ..maxdepth-1)
          FixAreaRenorm    \* get_area normalises before summing

VARIABLES pd, cached, ans, last

ivars == <<pd, cached, ans, last>>

NoAns == [kind |-> "none"]
EmptyPd == [d \in 1..D |-> {}]

\* ---- private helpers as functions <<pd, cached>> -> <<pd, cached>> -------
DemoteAllF(p, c) ==
    IF c /\ p[D] # {} THEN <<p, c>>      \* "only do the calculations if the demoted list is empty"
    ELSE <<[d \in 1..D |-> IF d = D THEN Demote(p, D) ELSE {}], TRUE>>

Quads(P) == {q \in P : q % 4 = 0 /\ {q + 1, q + 2, q + 3} \subseteq P}

RECURSIVE PromoteFrom(_, _)
PromoteFrom(p, d) ==                    \* for d in range(maxdepth, 2, -1)
    IF d < 3 THEN p
    ELSE LET qs == Quads(p[d])
             p2 == [p EXCEPT ![d] = @ \ UNION {{q, q + 1, q + 2, q + 3} : q \in qs},
                             ![d - 1] = @ \cup {q \div 4 : q \in qs}]
         IN PromoteFrom(p2, d - 1)

RenormF(p) == <<PromoteFrom(DemoteAllF(p, FALSE)[1], D), FALSE>>

AddF(p, c, P, d) == <<[p EXCEPT ![d] = @ \cup P], IF FixCacheReset THEN FALSE ELSE c>>

RECURSIVE UnionLevels(_, _, _, _)
UnionLevels(p, c, o, d) ==              \* add_pixels(other.pixeldict[d], d) for d = 1..min depth
    IF d > D \/ d > o.depth THEN <<p, c>>
    ELSE LET r == AddF(p, c, o.rep[d], d) IN UnionLevels(r[1], r[2], o, d + 1)

Degraded(o) ==                          \* finer pixels promoted to maxdepth (integer floor)
    UNION {{Anc(q, d, D) : q \in o.rep[d]} : d \in {x \in DOMAIN o.rep : x > D}}

\* ---- public calls --------------------------------------------------------
Init == pd = EmptyPd /\ cached = FALSE /\ ans = NoAns /\ last = [op |-> "init"]

AddPixelsRaw(P, d) ==
    /\ LET r == AddF(pd, cached, P, d) IN pd' = r[1] /\ cached' = r[2]
    /\ ans' = NoAns
    /\ last' = [op |-> "add_pixels", level |-> d, pix |-> P]

AddShape(P, d) ==                       \* add_circles / add_poly : add_pixels + _renorm
    /\ LET r == RenormF(AddF(pd, cached, P, d)[1]) IN pd' = r[1] /\ cached' = r[2]
    /\ ans' = NoAns
    /\ last' = [op |-> "add_shape", level |-> d, pix |-> P]

UnionOp(o, renorm) ==
    /\ LET r1 == UnionLevels(pd, cached, o, 1)
           p2 == IF D < o.depth THEN [r1[1] EXCEPT ![D] = @ \cup Degraded(o)] ELSE r1[1]
           r3 == IF renorm THEN RenormF(p2) ELSE <<p2, r1[2]>>
       IN pd' = r3[1] /\ cached' = r3[2]
    /\ ans' = NoAns
    /\ last' = [op |-> IF renorm THEN "union" ELSE "union_norenorm", other |-> o.name]

SetOp(o, name) ==
    /\ o.depth = D
    /\ LET r1  == DemoteAllF(pd, cached)
           opd == Demote(o.rep, D)                 \* other.get_demoted()
           cur == r1[1][D]
           new == CASE name = "without" -> cur \ opd
                    [] name = "intersect" -> cur \cap opd
                    [] name = "symmetric_difference" -> (cur \ opd) \cup (opd \ cur)
           r2  == RenormF([r1[1] EXCEPT ![D] = new])
       IN pd' = r2[1] /\ cached' = r2[2]
    /\ ans' = NoAns
    /\ last' = [op |-> name, other |-> o.name]

SetOpRaise(o, name) ==
    /\ o.depth # D
    /\ ans' = [kind |-> "raised"]
    /\ last' = [op |-> name, other |-> o.name]
    /\ UNCHANGED <<pd, cached>>

GetDemoted ==
    /\ LET r == DemoteAllF(pd, cached) IN
         pd' = r[1] /\ cached' = r[2] /\ ans' = [kind |-> "set", val |-> r[1][D]]
    /\ last' = [op |-> "get_demoted"]

SkyWithin(q) ==
    /\ LET r == DemoteAllF(pd, cached) IN
         pd' = r[1] /\ cached' = r[2] /\ ans' = [kind |-> "bool", val |-> (q \in r[1][D])]
    /\ last' = [op |-> "sky_within", pix |-> q]

RECURSIVE AreaSum(_, _)
AreaSum(p, d) == IF d > D THEN 0 ELSE Cardinality(p[d]) * Weight(d, D) + AreaSum(p, d + 1)

GetArea ==
    /\ LET r == IF FixAreaRenorm THEN RenormF(pd) ELSE <<pd, cached>> IN
         pd' = r[1] /\ cached' = r[2] /\ ans' = [kind |-> "int", val |-> AreaSum(r[1], 1)]
    /\ last' = [op |-> "get_area"]

SaveLoad ==
    /\ ans' = NoAns /\ last' = [op |-> "save_load"] /\ UNCHANGED <<pd, cached>>

ExportMoc ==
    /\ ans' = [kind |-> "moc", order |-> D,
               uniq |-> UNION {{Uniq(d, q) : q \in pd[d]} :
                                  d \in 1..(IF FixUniqRange THEN D ELSE D - 1)}]
    /\ last' = [op |-> "export_moc"]
    /\ UNCHANGED <<pd, cached>>

ExportReg ==
    /\ ans' = [kind |-> "reg", polys |-> UNION {{<<d, q>> : q \in pd[d]} : d \in 1..D}]
    /\ last' = [op |-> "export_reg"]
    /\ UNCHANGED <<pd, cached>>
=============================================================================
