---------------------------- MODULE MC_BaneSched ----------------------------
(* Schedule emission for spec -> code replay of C07.  A history variable   *)
(* records, for every model step that corresponds to releasing a stripe    *)
(* from a hook point of the real code, the pair <<stripe, gate>>:          *)
(*    P1Write(s)              <-> release s from "start"                   *)
(*    Arrive(s) at barrier 1  <-> release s from "p1_done" (calls wait())  *)
(*    AfterWait(s) barrier 1  <-> release s from "b1_after"                *)
(*    Arrive(s) at barrier 2  <-> release s from "p2_done"                 *)
(*    AfterWait(s) barrier 2  <-> release s from "b2_after"                *)
(* At termination the behaviour's configuration, schedule and outcome are  *)
(* printed as JSON; used with  tlc -simulate.                              *)
EXTENDS Bane, Json

CONSTANTS MaxNS, MaxCores

VARIABLE sched
svars == <<vars, sched>>

\* cores = 1 forces a single stripe in the code; at least 2 stripes make a schedule
SchedConfs ==
    {[ns |-> n, cores |-> c, domask |-> m, fs |-> 0, fp |-> "none"] :
        n \in 2..MaxNS, c \in 2..MaxCores, m \in BOOLEAN}

Rel(s, g) == sched' = Append(sched, <<s, g>>)

SInit == Init /\ sched = <<>>

SNext ==
    \/ /\ UNCHANGED conf
       /\ \/ StartTask /\ UNCHANGED sched
          \/ \E s \in Stripe :
               \/ (P1Write(s) /\ Rel(s, "start"))
               \/ (Arrive(s, "b1", "b1w", "r1") /\ Rel(s, "p1_done"))
               \/ (Leave(s, "b1w", "r1") /\ UNCHANGED sched)
               \/ (AfterWait(s, "r1", "p2", "b1_after") /\ Rel(s, "b1_after"))
               \/ (P2(s) /\ UNCHANGED sched)
               \/ (Arrive(s, "b2", "b2w", "r2") /\ Rel(s, "p2_done"))
               \/ (Leave(s, "b2w", "r2") /\ UNCHANGED sched)
               \/ (AfterWait(s, "r2", "mask", "b2_after") /\ Rel(s, "b2_after"))
               \/ (Mask(s) /\ UNCHANGED sched)
          \/ MainGet /\ UNCHANGED sched
          \/ MainFinally /\ UNCHANGED sched

SSpec == SInit /\ [][SNext]_svars

EmitAtEnd ==
    IF Terminated
    THEN PrintT(ToJson([conf |-> conf, sched |-> sched, outcome |-> mainpc,
                        failed |-> failed])) /\ FALSE
    ELSE TRUE
=============================================================================
