--------------------------- MODULE MC_AeResConfig ---------------------------
(***************************************************************************)
(* Model-checking instance for C14.                                        *)
(*  (1) TLC enumerates the discrete part of the property's quantifier, the *)
(*      option lattice                                                     *)
(*        operation {subtract, add, mask} x threshold option {frac, sigma} *)
(*        x column renaming x projection x catalogue shape class,          *)
(*      checks every element has a representative in the abstract model    *)
(*      and emits it (with the position zones its sources are drawn from)  *)
(*      for the harness to instantiate on the real AeRes.                  *)
(*  (2) TLC checks the abstract catalogue-level algebra of AeResRel on a   *)
(*      small instance (a line of 5 pixels, a truncated integer kernel,    *)
(*      sources centred on / next to / off the line, of both signs):       *)
(*      Model is a bag homomorphism (additive, order independent), off-    *)
(*      image sources are inert, Subtract o Add = id, the blank set of a   *)
(*      catalogue is the union of its sources' threshold sets - as         *)
(*      theorems over all catalogues of <= 2 sources, and as invariants of *)
(*      the machine  Add(s) / Subtract(s) / Mask(s, k)  over an image.     *)
(***************************************************************************)
EXTENDS AeResRel, TLC, Json
VARIABLES cfg, pc, img, net, masked, blank
vars == <<cfg, pc, img, net, masked, blank>>

(* ------------------------------ lattice -------------------------------- *)
Ops       == {"subtract", "add", "mask"}
ThrKinds  == {"frac", "sigma"}
Renamings == {"default", "renamed", "shadowed"}
Projs     == {"SIN", "TAN", "ZEA"}
Shapes    == {"inside", "near_edge", "off_edge", "negative"}
Lattice   == [op : Ops, thr : ThrKinds, renaming : Renamings, proj : Projs,
              shape : Shapes]
NoCfg     == [op |-> "none", thr |-> "none", renaming |-> "none",
              proj |-> "none", shape |-> "none"]

\* position zones (distance of the centre from the outermost pixel centre,
\* pixels, negative = outwards) the sources of a shape class are drawn from
ZoneRange(z) == CASE z = "in"   -> <<6000, 1000000>>
                  [] z = "near" -> <<20, 4000>>
                  [] z = "just" -> <<-980, -520>>
                  [] z = "off"  -> <<-15000, -1050>>
                  [] z = "far"  -> <<-400000, -40000>>
                  [] z = "sky"  -> <<-IntMax, -IntMax>>     \* other side of the sky
ZonesOf(sh) == CASE sh = "inside"    -> {"in"}
                 [] sh = "near_edge" -> {"near"}
                 [] sh = "off_edge"  -> {"just", "off", "far", "sky"}
                 [] sh = "negative"  -> {"in", "near"}
SignOf(sh) == IF sh = "negative" THEN -1 ELSE 1
ZoneIsOff(z) == ZoneRange(z)[2] < -500
ZoneIsInside(z) == ZoneRange(z)[1] >= 0

Emitted(c) == [op |-> c.op, thr |-> c.thr, renaming |-> c.renaming,
               proj |-> c.proj, shape |-> c.shape, sign |-> SignOf(c.shape),
               zones |-> [z \in ZonesOf(c.shape) |-> ZoneRange(z)]]

(* --------------------------- abstract instance ------------------------- *)
P == 1..5
Kernel(d) == CASE d = 0 -> 4 [] d = 1 -> 2 [] d = 2 -> 1 [] OTHER -> 0
Srcs == [c : {0, 1, 3, 5, 6}, amp : {1, 2, -1}]
OnImage(s) == s.c \in P
Contrib == [s \in Srcs |->
              IF OnImage(s)
              THEN [p \in P |-> s.amp * Kernel(AbsV(p - s.c))]
              ELSE ImgZero(P)]
ClassOf(s) == IF ~OnImage(s) THEN "off_edge"
              ELSE IF s.amp < 0 THEN "negative"
              ELSE IF s.c \in {1, 5} THEN "near_edge" ELSE "inside"

\* thresholds: frac = k/4 of the peak (peak of the kernel is 4 * amp)
Fracs == {1, 2, 3}
ThrFrac(k) == [s \in Srcs |-> k * s.amp]

Cats == {<<>>} \cup {<<s>> : s \in Srcs} \cup {<<s, t>> : s \in Srcs, t \in Srcs}
M(cat) == ModelOf(cat, Contrib, P)
Imgs == {ImgZero(P), [p \in P |-> 10 * p], [p \in P |-> 7 - p * p]}

ASSUME Homomorphism ==
    \A A \in Cats, B \in Cats : M(A \o B) = ImgPlus(M(A), M(B))
ASSUME OrderIndependent ==
    \A A \in Cats, B \in Cats : M(A \o B) = M(B \o A)
ASSUME EmptyCatalogue == M(<<>>) = ImgZero(P)
ASSUME OffImageInert ==
    \A s \in Srcs : ~OnImage(s) =>
        /\ M(<<s>>) = ImgZero(P)
        /\ \A A \in Cats : M(A \o <<s>>) = M(A)
ASSUME OnImageSeen ==
    \A s \in Srcs : OnImage(s) => M(<<s>>)[s.c] = 4 * s.amp
ASSUME SubtractUndoesAdd ==
    \A i \in Imgs, A \in Cats :
        /\ SubtractFrom(AddTo(i, A, Contrib, P), A, Contrib, P) = i
        /\ AddTo(SubtractFrom(i, A, Contrib, P), A, Contrib, P) = i
ASSUME AddIsNotSubtract ==
    \A i \in Imgs, s \in Srcs : OnImage(s) =>
        AddTo(i, <<s>>, Contrib, P) # SubtractFrom(i, <<s>>, Contrib, P)
Short == {c \in Cats : Len(c) <= 1}
ASSUME BlankIsUnion ==
    \A k \in Fracs, rd \in {"signed", "magnitude"}, A \in Cats, B \in Short :
        BlankSet(A \o B, Contrib, ThrFrac(k), rd)
          = BlankSet(A, Contrib, ThrFrac(k), rd) \cup BlankSet(B, Contrib, ThrFrac(k), rd)
ASSUME ReadingsAgreeForPositive ==
    \A k \in Fracs, s \in Srcs : s.amp > 0 =>
        BlankOf(Contrib[s], ThrFrac(k)[s], "signed")
          = BlankOf(Contrib[s], ThrFrac(k)[s], "magnitude")
ASSUME ReadingsDifferForNegative ==
    \E k \in Fracs, s \in Srcs : s.amp < 0 /\ OnImage(s) /\
        BlankOf(Contrib[s], ThrFrac(k)[s], "signed")
          # BlankOf(Contrib[s], ThrFrac(k)[s], "magnitude")
ASSUME BlankIsTheCore ==      \* magnitudes: the pixels within the threshold contour
    \A s \in Srcs : OnImage(s) =>
        /\ BlankOf(Contrib[s], ThrFrac(3)[s], "magnitude") = {s.c}
        /\ BlankOf(Contrib[s], ThrFrac(2)[s], "magnitude")
             = {p \in P : AbsV(p - s.c) <= 1}
ASSUME EveryShapeHasARepresentative ==
    \A sh \in Shapes : \E s \in Srcs : ClassOf(s) = sh
ASSUME ZonesMatchClasses ==
    /\ \A z \in ZonesOf("off_edge") : ZoneIsOff(z)
    /\ \A sh \in Shapes \ {"off_edge"} : \A z \in ZonesOf(sh) : ZoneIsInside(z)
    /\ \A z \in {"in", "near", "just", "off", "far"} : ZoneRange(z)[1] <= ZoneRange(z)[2]
\* the position classes of Part B partition the axis and keep the zones apart
ASSUME PositionClasses ==
    \A n \in {1, 2, 64} : \A x \in -1200..(n * 1000 + 200) :
        /\ ~(InsideAxis(x, n) /\ OffAxis(x, n))
        /\ (x < -500 => OffAxis(x, n)) /\ (x > n * 1000 - 500 => OffAxis(x, n))
        /\ ((0 <= x /\ x <= (n - 1) * 1000) <=> InsideAxis(x, n))
ASSUME FixedPointFacts ==
    /\ Within(300000000, 100000000 + 200000000, E8Tol)
    /\ ~Within(300000101, 100000000 + 200000000, E8Tol)
    /\ Within(-5, 100 + (-100), E8Tol)
    /\ IsDev(0) /\ IsDev(IntMax) /\ ~IsDev(-1)
    /\ InSet(5, 5, "signed") /\ ~InSet(4, 5, "signed") /\ InSet(-1, -5, "signed")
    /\ ~InSet(-1, -5, "magnitude") /\ InSet(-5, -5, "magnitude") /\ InSet(-6, 5, "magnitude")

(* ------------------------------- machine ------------------------------- *)
S1 == [c |-> 3, amp |-> 2]     \* inside
S2 == [c |-> 1, amp |-> 1]     \* near the edge
S3 == [c |-> 0, amp |-> 2]     \* off the image
S4 == [c |-> 3, amp |-> -1]    \* negative
MSeq  == <<S1, S2, S3, S4>>
MSrcs == {MSeq[k] : k \in 1..4}
Base  == [p \in P |-> 10 * p]
MaskFracs == {1, 3}

Init == /\ \/ cfg \in Lattice /\ pc = "chosen"
           \/ cfg = NoCfg /\ pc = "machine"
        /\ img = Base
        /\ net = [s \in MSrcs |-> 0]
        /\ masked = {} /\ blank = {}

Emit == /\ pc = "chosen"
        /\ PrintT(ToJson(Emitted(cfg)))
        /\ pc' = "emitted"
        /\ UNCHANGED <<cfg, img, net, masked, blank>>

Add(s) == /\ pc = "machine" /\ net[s] < 1
          /\ img' = AddTo(img, <<s>>, Contrib, P)
          /\ net' = [net EXCEPT ![s] = @ + 1]
          /\ UNCHANGED <<cfg, pc, masked, blank>>

Subtract(s) == /\ pc = "machine" /\ net[s] > -1
               /\ img' = SubtractFrom(img, <<s>>, Contrib, P)
               /\ net' = [net EXCEPT ![s] = @ - 1]
               /\ UNCHANGED <<cfg, pc, masked, blank>>

Mask(s, k) == /\ pc = "machine" /\ <<s, k>> \notin masked
              /\ masked' = masked \cup {<<s, k>>}
              /\ blank' = blank \cup BlankOf(Contrib[s], ThrFrac(k)[s], "magnitude")
              /\ UNCHANGED <<cfg, pc, img, net>>

AddAny      == \E s \in MSrcs : Add(s)
SubtractAny == \E s \in MSrcs : Subtract(s)
MaskAny     == \E s \in MSrcs, k \in MaskFracs : Mask(s, k)
Next == Emit \/ AddAny \/ SubtractAny \/ MaskAny
Spec == Init /\ [][Next]_vars

RECURSIVE NetModel(_)
NetModel(k) == IF k = 0 THEN ImgZero(P)
               ELSE ImgPlus(ImgScale(net[MSeq[k]], Contrib[MSeq[k]]), NetModel(k - 1))

\* the image is the base image plus the net catalogue's model, whatever the
\* order in which sources were added and subtracted
Ledger   == pc = "machine" => img = ImgPlus(Base, NetModel(4))
Restores == (pc = "machine" /\ \A s \in MSrcs : net[s] = 0) => img = Base
OffInert == pc = "machine" =>
               img = ImgPlus(Base, ImgPlus(ImgScale(net[S1], Contrib[S1]),
                            ImgPlus(ImgScale(net[S2], Contrib[S2]),
                                    ImgScale(net[S4], Contrib[S4]))))
BlankedIsUnion ==
    blank = UNION {BlankOf(Contrib[m[1]], ThrFrac(m[2])[m[1]], "magnitude") : m \in masked}
OffNeverBlanks ==
    (\A m \in masked : m[1] = S3) => blank = {}
LatticeInDomain ==
    pc # "machine" =>
        /\ \E s \in Srcs : ClassOf(s) = cfg.shape
        /\ ZonesOf(cfg.shape) # {}
        /\ (cfg.shape = "negative" <=> SignOf(cfg.shape) < 0)
=============================================================================
