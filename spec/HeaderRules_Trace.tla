-------------------------- MODULE HeaderRules_Trace --------------------------
(* Replay direction for HeaderRules: one real header per class (distinct     *)
(* sentinel numbers in every keyword); the harness reports, for each value   *)
(* the real functions return, the SET of rules whose number it equals        *)
(* (several rules can give the same number); accepted iff the rule the       *)
(* specification names is in that set.                                       *)
EXTENDS TraceBatch
VARIABLES conf, pc, got
H == INSTANCE HeaderRules
SeqSet(q) == {q[k] : k \in 1..Len(q)}
Fails(r) ==
    IF r.conf \notin H!Confs THEN <<"configuration_in_domain">> ELSE
    LET w == H!Rules(r.conf) IN
    Clause("pixel_scale_rule", w.pixscale \in SeqSet(r.pixscale))
    \o Clause("pixel_area_rule", w.pixarea \in SeqSet(r.pixarea))
    \o Clause("beam_source", w.beam.from \in SeqSet(r.beamfrom))
    \o Clause("beam_position_angle", w.beam.from = "refused" \/ w.beam.pa \in SeqSet(r.beampa))
    \o Clause("bane_default_grid", w.step \in SeqSet(r.step))
Next == BatchNext(Fails) /\ UNCHANGED <<conf, pc, got>>
Spec == BatchInit /\ conf = 0 /\ pc = "trace" /\ got = 0 /\ [][Next]_<<pos, conf, pc, got>>
=============================================================================
