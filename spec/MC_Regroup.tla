----------------------------- MODULE MC_Regroup -----------------------------
(* Model-checking instance for C19.  TLC enumerates every catalogue of      *)
(* 1..MaxN rows on the W x H lattice (as multisets of lattice points, i.e.  *)
(* duplicate positions included, up to DupMaxN rows, as sets above; the row *)
(* orders are covered by the permutation theorem), every flux pattern and   *)
(* every linking length class                                               *)
(* E (= 2 eps^2, odd), groups it with Regroup!Groups, labels it, and checks *)
(* the theorems of the property on the specification.  Every case is also   *)
(* emitted (PrintT/ToJson) so that the harness replays exactly this domain  *)
(* on the real code.                                                        *)
EXTENDS Regroup, TLC, Json
CONSTANTS W, H, MaxN, DupMaxN, Es, FluxPats
VARIABLES pts, flux, E, pc, G, isl, src

vars == <<pts, flux, E, pc, G, isl, src>>

n  == Len(pts)
Pt(p) == <<p % W, p \div W>>
xy == [i \in 1..n |-> Pt(pts[i])]
Nb == NbLat(xy, E)

FluxOf(pat, m) ==
    CASE pat = "down" -> [i \in 1..m |-> m + 1 - i]
      [] pat = "neg"  -> [i \in 1..m |-> i - 3]
      [] pat = "zig"  -> [i \in 1..m |-> IF i % 2 = 1 THEN m + i ELSE i]
      [] pat = "tie"  -> [i \in 1..m |-> (i + 1) \div 2]
      [] pat = "flat" -> [i \in 1..m |-> 7]

PermsOf == [m \in 1..MaxN |-> Perms(m)]

\* the catalogue positions are chosen in Init, the flux pattern and the linking
\* length in Pick (so that TLC's workers share the enumeration)
Init == /\ \E m \in 1..MaxN :
              pts \in {s \in [1..m -> 0..(W * H - 1)] :
                          \A i \in 1..(m - 1) :
                              s[i] < s[i + 1] \/ (m <= DupMaxN /\ s[i] = s[i + 1])}
        /\ flux = <<>> /\ E = 0
        /\ pc = "pick" /\ G = {} /\ isl = <<>> /\ src = <<>>

Pick == /\ pc = "pick"
        /\ \E pat \in FluxPats : flux' = FluxOf(pat, n)
        /\ E' \in Es
        /\ pc' = "in"
        /\ UNCHANGED <<pts, G, isl, src>>

Group == /\ pc = "in"
         /\ G' = Groups(n, Nb)
         /\ PrintT(ToJson([n |-> n, pts |-> pts, flux |-> flux, E |-> E]))
         /\ pc' = "grouped"
         /\ UNCHANGED <<pts, flux, E, isl, src>>

Label == /\ pc = "grouped"
         /\ isl' = CanonIsl(G, n)
         /\ src' = CanonSrc(G, n, flux)
         /\ pc' = "labelled"
         /\ UNCHANGED <<pts, flux, E, G>>

Next == Pick \/ Group \/ Label
Spec == Init /\ [][Next]_vars

\* ---- theorems ------------------------------------------------------------
WellPosed        == pc # "pick" => EpsBetween(xy, E) /\ Symmetric(n, Nb)
PartitionThm     == pc \in {"grouped", "labelled"} => IsPartition(G, n)
ChainThm         == pc \in {"grouped", "labelled"} => IsChainPartition(G, n, Nb)
ComponentsThm    == pc \in {"grouped", "labelled"} => IsEpsPartition(G, n, Nb) /\ BlocksChainConnected(G, n, Nb)
PermInvariantThm == pc = "grouped" =>
                       \A pi \in PermsOf[n] :
                          Unpermute(Groups(n, NbLat(Permute(xy, pi), E)), pi) = G
LabelsThm        == pc = "labelled" => ValidLabels(G, n, flux, isl, src)
\* labels are invariant under row permutations when no fluxes tie in a group
LabelsPermThm    == (pc = "labelled" /\ NoTies(G, flux)) =>
                       \A pi \in PermsOf[n] :
                          LET Gp == Groups(n, NbLat(Permute(xy, pi), E))
                              sp == CanonSrc(Gp, n, Permute(flux, pi))
                          IN \A r \in 1..n : sp[r] = src[pi[r]]

ASSUME ResizeThm == ResizeIdentity(12) /\ ResizeNoShrink(12)
=============================================================================
