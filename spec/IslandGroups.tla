---------------------------- MODULE IslandGroups ----------------------------
(***************************************************************************)
(* models.island_itergen and models.classify_catalog: how a flat catalogue *)
(* of components becomes "one island at a time" (the unit every table      *)
(* writer, the priorized fit and regrouping consume).  Growth of the       *)
(* specification beyond the twenty listed properties.                      *)
(*                                                                         *)
(* A component is a pair <<island, source>>; a catalogue is a sequence of  *)
(* them in any order.  Groups(cat) is the specification: the components    *)
(* in (island, source) order - ties in input order -, cut where the island *)
(* changes.  The generator is also written as the machine the code is (a   *)
(* reversed sorted stack that is popped, an island counter that is         *)
(* incremented through the gaps) and TLC checks that the machine yields    *)
(* Groups(cat), loses nothing on the way and terminates, for every         *)
(* catalogue of the bounded domain.  Named deviation: the empty catalogue  *)
(* is refused with an IndexError (pc = "refused"), it is not "no groups".  *)
(***************************************************************************)
EXTENDS Integers, Sequences, FiniteSets, SequencesExt, FiniteSetsExt, TLC

CONSTANTS MaxLen, Islands, Sources

Comp == Islands \X Sources
Cats == UNION {[1..n -> Comp] : n \in 0..MaxLen}

Less(a, b) == a[1] < b[1] \/ (a[1] = b[1] /\ a[2] < b[2])
\* Python's sorted() is stable: equal keys keep their input order
IdxLess(cat, i, j) == Less(cat[i], cat[j]) \/ (cat[i] = cat[j] /\ i < j)
Iota(n) == [k \in 1..n |-> k]
SortedIdx(cat) == SortSeq(Iota(Len(cat)), LAMBDA i, j : IdxLess(cat, i, j))
IslandsOf(cat) == {cat[i][1] : i \in 1..Len(cat)}
Groups(cat) ==
    LET s == SortedIdx(cat)
        isl == SetToSortSeq(IslandsOf(cat), <)
    IN [g \in 1..Len(isl) |-> SelectSeq(s, LAMBDA i : cat[i][1] = isl[g])]

\* classify_catalog: three order-preserving filters; a component and an island are both "simple"
\* sources by inheritance, so the order of the tests matters
Kinds == {"component", "island", "simple", "other"}
Classify(kinds) ==
    LET pick(k) == SelectSeq(Iota(Len(kinds)), LAMBDA i : kinds[i] = k)
    IN [components |-> pick("component"), islands |-> pick("island"), simples |-> pick("simple")]

\* ---- the generator as the code walks -------------------------------------------------------
VARIABLES cat, stack, src, clen, isle, group, out, pc
vars == <<cat, stack, src, clen, isle, group, out, pc>>

Init ==
    /\ cat \in Cats
    /\ group = <<>> /\ out = <<>>
    /\ IF Len(cat) = 0
       THEN stack = <<>> /\ src = 0 /\ clen = 0 /\ isle = 0 /\ pc = "refused"
       ELSE LET rs == Reverse(SortedIdx(cat)) IN
            /\ src = Last(rs) /\ stack = Front(rs)
            /\ clen = Len(rs) - 1 /\ isle = cat[Last(rs)][1] /\ pc = "loop"

Same ==
    /\ pc = "loop" /\ clen >= 0 /\ cat[src][1] = isle
    /\ group' = Append(group, src)
    /\ clen' = clen - 1
    /\ IF clen' < 0
       THEN out' = Append(out, group') /\ pc' = "done" /\ UNCHANGED <<src, stack>>
       ELSE src' = Last(stack) /\ stack' = Front(stack) /\ UNCHANGED <<out, pc>>
    /\ UNCHANGED <<cat, isle>>

Other ==
    /\ pc = "loop" /\ clen >= 0 /\ cat[src][1] # isle
    /\ isle' = isle + 1
    /\ IF group = <<>> THEN UNCHANGED <<group, out>>
       ELSE out' = Append(out, group) /\ group' = <<>>
    /\ UNCHANGED <<cat, stack, src, clen, pc>>

Next == Same \/ Other
Spec == Init /\ [][Next]_vars /\ WF_vars(Next)

Flat(q) == FlattenSeq(q)
Pending == IF pc = "loop" THEN <<src>> \o Reverse(stack) ELSE <<>>
NeverLost == /\ pc = "loop" => Flat(out) \o group \o Pending = SortedIdx(cat)
             /\ pc = "done" => Flat(out) = SortedIdx(cat)
CounterBounded == pc = "loop" => isle <= cat[src][1]
YieldsGroups == pc = "done" => out = Groups(cat)
RefusedIffEmpty == (pc = "refused") <=> (Len(cat) = 0)
Terminates == <>(pc \in {"done", "refused"})

\* facts a consumer relies on, stated for the catalogue of the current behaviour (every catalogue of the
\* domain is the catalogue of some initial state)
GroupFactsOf(c) == LET g == Groups(c) IN
        /\ \A k \in 1..Len(g) : g[k] # <<>> /\ \A a, b \in 1..Len(g[k]) : c[g[k][a]][1] = c[g[k][b]][1]
        /\ \A k \in 1..(Len(g) - 1) : c[g[k][1]][1] < c[g[k + 1][1]][1]
        /\ Len(Flat(g)) = Len(c) /\ ToSet(Flat(g)) = 1..Len(c)
GroupFacts == pc \in {"done", "refused"} => GroupFactsOf(cat)
=============================================================================
