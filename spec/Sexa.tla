-------------------------------- MODULE Sexa --------------------------------
(***************************************************************************)
(* Integer model of the sexagesimal formatting / parsing primitives of     *)
(* AegeanTools/angle_tools.py (dec2dms, dec2hms, dec2dec, ra2dec)   (C17)  *)
(*                                                                         *)
(* Units.  An angle is an integer N of *fine* units, one decimal finer     *)
(* than what is printed:                                                   *)
(*   kind "dms" : 1 fine = 1e-3 arcsec      (x = N / 3 600 000 deg)        *)
(*   kind "hms" : 1 fine = 1e-3 s of time   (x = N / 240 000 deg)          *)
(* The printed unit ("cs") is 0.01 arcsec / 0.01 s = 10 fine units, so     *)
(* values that round *up* to the next minute / degree / hour are in the    *)
(* domain; exact rounding ties (|N| mod 10 = 5) are excluded (the          *)
(* property leaves the tie direction open).                                *)
(*                                                                         *)
(* A printed string is the record  [neg, u, m, cs] : sign, degrees or      *)
(* hours, minutes, seconds in centi-seconds (SS.SS = cs / 100).            *)
(*                                                                         *)
(* Property level  : MinutesOK, SecondsOK, HoursOK, Inverse*  - no         *)
(*                   formula for the formatter is fixed.                   *)
(* Design level    : FmtRound (round first, then split) and FmtCarry       *)
(*                   (split first, round the seconds, propagate the carry  *)
(*                   explicitly).  FmtNaive is the defective design        *)
(*                   "split, round the seconds, no carry" and exists only  *)
(*                   so that TLC can show the theorems reject it.          *)
(***************************************************************************)
EXTENDS Integers, Sequences, TLC

Fine      == 10                      \* fine units per printed unit
CsPerMin  == 6000                    \* printed units per minute
CsPerUnit == 360000                  \* printed units per degree / hour
DayCs     == 24 * CsPerUnit          \* 24 h in printed units (8 640 000)
TurnFine  == DayCs * Fine            \* 360 deg in hms fine units (86 400 000)
MaxDecFine == 90 * CsPerUnit * Fine  \* 90 deg in dms fine units (324 000 000)
FinePerMin == CsPerMin * Fine        \* 60 000
FinePerUnit == CsPerUnit * Fine      \* 3 600 000

Abs(x)   == IF x < 0 THEN -x ELSE x
IsTie(N) == Abs(N) % Fine = 5
Round(A) == (A + 5) \div Fine        \* A >= 0, not a tie : nearest printed unit

Kinds == {"dms", "hms"}

Fields(neg, u, m, cs) == [neg |-> neg, u |-> u, m |-> m, cs |-> cs]

----------------------------------------------------------------------------
(* ------------------------  property level  ----------------------------- *)

MinutesOK(f) == f.m >= 0 /\ f.m < 60
SecondsOK(f) == f.cs >= 0 /\ f.cs < CsPerMin
HoursOK(f)   == f.u >= 0 /\ f.u < 24
DegreesOK(f) == f.u >= 0
\* guards so that the arithmetic below cannot leave the 32 bit range
Sane(f)      == f.u >= 0 /\ f.u <= 400 /\ f.m >= 0 /\ f.m <= 999
                /\ f.cs >= 0 /\ f.cs <= 99999

\* what a printed string denotes, in printed units (the parser's contract)
ParseCs(f) == (IF f.neg THEN -1 ELSE 1)
              * (f.u * CsPerUnit + f.m * CsPerMin + f.cs)

\* the rounded value of N in printed units
RoundCs(N) == IF N < 0 THEN -Round(-N) ELSE Round(N)
\* ... of an RA, modulo 24 h
RoundCsRA(N) == Round(N % TurnFine) % DayCs

\* inverse law, declination: within half a printed unit
InverseDMS(N, f) == Sane(f) /\ Abs(ParseCs(f) * Fine - N) <= 5

\* inverse law, right ascension: the same modulo 360 deg
InverseHMS(N, f) ==
    /\ Sane(f) /\ ~f.neg
    /\ \E k \in {-1, 0, 1} : Abs(ParseCs(f) * Fine - (N % TurnFine) + k * TurnFine) <= 5

\* inverse law for a real valued result y = yi + ydev * 1e-6 fine units
\* (what dec2dec / ra2dec returned, projected by the harness):
\* |y - target| <= 5 fine units, exactly, in units of 1e-6 fine
WithinHalfUnit(yi, ydev, target) ==
    /\ Abs(yi - target) <= 6
    /\ Abs((yi - target) * 1000000 + ydev) <= 5000000

InverseRealDMS(N, yi, ydev) == WithinHalfUnit(yi, ydev, N)
InverseRealHMS(N, yi, ydev) ==
    \E k \in {-1, 0, 1} : WithinHalfUnit(yi, ydev, (N % TurnFine) + k * TurnFine)

----------------------------------------------------------------------------
(* -------------------------  design level  ------------------------------ *)

Split(neg, R) ==    \* R >= 0 printed units -> fields
    Fields(neg, R \div CsPerUnit, (R \div CsPerMin) % 60, R % CsPerMin)

\* design A : round to the printed unit first, then split
FmtRound(kind, N) ==
    IF kind = "dms" THEN Split(N < 0, Round(Abs(N)))
    ELSE Split(FALSE, RoundCsRA(N))

\* design B : split the fine value, round the seconds, carry explicitly
FmtCarry(kind, N) ==
    LET A   == IF kind = "dms" THEN Abs(N) ELSE N % TurnFine
        u0  == A \div FinePerUnit
        m0  == (A % FinePerUnit) \div FinePerMin
        cs0 == Round(A % FinePerMin)
        c1  == IF cs0 >= CsPerMin THEN 1 ELSE 0       \* seconds -> minutes
        cs  == cs0 - c1 * CsPerMin
        m1  == m0 + c1
        c2  == IF m1 >= 60 THEN 1 ELSE 0              \* minutes -> degrees/hours
        m   == m1 - c2 * 60
        u1  == u0 + c2
        u   == IF kind = "hms" /\ u1 >= 24 THEN u1 - 24 ELSE u1   \* 24h = 0h
    IN Fields(kind = "dms" /\ N < 0, u, m, cs)

\* defective design : as B without any carry (and without the 24 h wrap)
FmtNaive(kind, N) ==
    LET A == IF kind = "dms" THEN Abs(N) ELSE N % TurnFine
    IN Fields(kind = "dms" /\ N < 0, A \div FinePerUnit,
              (A % FinePerUnit) \div FinePerMin, Round(A % FinePerMin))

Fmt(design, kind, N) ==
    IF design = "round" THEN FmtRound(kind, N)
    ELSE IF design = "carry" THEN FmtCarry(kind, N)
    ELSE FmtNaive(kind, N)

\* canonical text  [+-]DD:MM:SS.SS  /  HH:MM:SS.SS
Pad2(n) == IF n < 10 THEN "0" \o ToString(n) ELSE ToString(n)
Text(kind, f) ==
    (IF kind = "dms" THEN (IF f.neg THEN "-" ELSE "+") ELSE "")
    \o Pad2(f.u) \o ":" \o Pad2(f.m) \o ":" \o Pad2(f.cs \div 100) \o "."
    \o Pad2(f.cs % 100)

----------------------------------------------------------------------------
(* ---------------------------  theorems  -------------------------------- *)
(* stated for one input; MC_Sexa lets TLC check them on the carry windows  *)

InDomain(kind, N) ==
    /\ ~IsTie(N)
    /\ IF kind = "dms" THEN N >= -MaxDecFine /\ N <= MaxDecFine
       ELSE N >= 0 /\ N < TurnFine

FieldRangeThm(kind, f) ==
    MinutesOK(f) /\ SecondsOK(f) /\ (kind = "hms" => HoursOK(f)) /\ DegreesOK(f)

InverseThm(kind, N, f) ==
    IF kind = "dms" THEN InverseDMS(N, f) ELSE InverseHMS(N, f)

\* Parse(Fmt(N)) = round(N)   (modulo 24 h for RA)
ExactRoundThm(kind, N, f) ==
    ParseCs(f) = (IF kind = "dms" THEN RoundCs(N) ELSE RoundCsRA(N))

\* the sign is printed iff it matters ("-00:00:01.00" keeps its sign)
SignThm(kind, N, f) ==
    /\ f.neg => (kind = "dms" /\ N < 0)
    /\ (kind = "dms" /\ N < 0 /\ RoundCs(N) # 0) => f.neg
=============================================================================
