----------------------------- MODULE Sexa_Trace -----------------------------
(* Code -> spec for the sexagesimal part of C17.  One record per call of   *)
(* the real angle_tools functions; the harness only splits the returned    *)
(* text into its printed integer fields / projects the returned float.     *)
(*                                                                         *)
(* kind = "fmt"   : fn in {"dec2dms","dec2hms"} called with x = n fine     *)
(*                  units (nearest double); returned text split into       *)
(*                  wf (matches [+-]DD:MM:SS.SS / HH:MM:SS.SS), neg, u, m, *)
(*                  cs;  err = exception text or ""                        *)
(*                  rt = the real parser (dec2dec / ra2dec) was applied to *)
(*                  that text and returned y = yi + ydev*1e-6 fine units   *)
(* kind = "parse" : fn in {"dec2dec","ra2dec"} applied to a text whose     *)
(*                  fields neg,u,m,cs are given (TLC-emitted canonical     *)
(*                  texts of MC_Sexa and separator / sign / two-field      *)
(*                  variants); result y as above                           *)
(* Every clause is a property-level predicate of Sexa.tla.                 *)
EXTENDS TraceBatch, Sexa

F(r) == Fields(r.neg, r.u, r.m, r.cs)
IsHMS(r) == r.fn = "dec2hms" \/ r.fn = "ra2dec"
KindOf(r) == IF IsHMS(r) THEN "hms" ELSE "dms"

FailsFmt(r) ==
    IF ~InDomain(KindOf(r), r.n) THEN <<"input_in_domain">> ELSE
    IF r.err # "" THEN <<"completed">> ELSE
    IF ~r.wf THEN <<"text_well_formed">> ELSE
    Clause("minutes_below_60", MinutesOK(F(r)))
    \o Clause("seconds_below_60", SecondsOK(F(r)))
    \o Clause("hours_below_24", IsHMS(r) => HoursOK(F(r)))
    \o Clause("inverse_within_half_unit", InverseThm(KindOf(r), r.n, F(r)))
    \o Clause("parse_of_format_within_half_unit",
           r.rt => IF IsHMS(r) THEN InverseRealHMS(r.n, r.yi, r.ydev)
                   ELSE InverseRealDMS(r.n, r.yi, r.ydev))

\* the parser's contract on a well formed text: its value, within half a
\* printed unit (no wrap: the parser is not asked to reduce modulo 360)
FailsParse(r) ==
    IF ~(Sane(F(r)) /\ MinutesOK(F(r)) /\ SecondsOK(F(r))) THEN <<"input_in_domain">> ELSE
    IF r.err # "" THEN <<"completed">> ELSE
    Clause("parse_is_value_of_fields",
           WithinHalfUnit(r.yi, r.ydev, ParseCs(F(r)) * Fine))

Fails(r) == IF r.kind = "fmt" THEN FailsFmt(r)
            ELSE IF r.kind = "parse" THEN FailsParse(r)
            ELSE <<"unknown_record_kind">>

Next == BatchNext(Fails)
Spec == BatchInit /\ [][Next]_pos
=============================================================================
