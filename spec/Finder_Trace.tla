----------------------------- MODULE Finder_Trace ---------------------------
(***************************************************************************)
(* C03: validation of real output catalogues (blind, blind+island rows,    *)
(* priorized) against the catalogue-consistency clauses.  One record per   *)
(* run.  Component row fields (integers / strings):                        *)
(*   island, source, uuid, a_mas, b_mas (milli-arcsec), pa_udeg, ra_udeg,  *)
(*   dec_udeg, flags, fitok (no NOTFIT/FITERR/WCSERR flag),                *)
(*   errk : 7 codes for err_ra, err_dec, err_peak, err_int, err_a, err_b,  *)
(*          err_pa : 1 = positive and finite, 0 = exactly -1, 2 = other    *)
(*   rah, ram, racs / ded, dem, decs : printed sexagesimal fields          *)
(*   radev_ndeg, dedev_ndeg : |parsed string - decimal| in 1e-9 deg        *)
(*   lnr_unep : 1e6 * ln( int_flux / (peak*a*b/(psf_a*psf_b)) )            *)
(*   tok : float identity token of the row (uuid excluded)                 *)
(* Island rows: island, components, pixels, peaktok, extent.               *)
(* oracle: the islands of the image (find_islands, pinned by C02): num,    *)
(*   npix, peaktok, extent.  rerun / fresh: tokens of the same run         *)
(*   repeated in the same and in a fresh process.                          *)
(* The numbering clauses are Finder!Consistent.                            *)
(***************************************************************************)
EXTENDS TraceBatch

B == 20
MaxGroups == 0
MaxComp == 0
FixIstart == TRUE
VARIABLES mode, work, isle_num, batch, inbatch, rows
FinderM == INSTANCE Finder
PairsUnique(rs) == FinderM!PairsUnique(rs)
Contiguous(rs) == FinderM!Contiguous(rs)

HalfUnitRA  == 20834      \* 0.005 s of time in 1e-9 deg
HalfUnitDec == 1390       \* 0.005 arcsec in 1e-9 deg
Ln101       == 9951       \* ln(1.01) in 1e-6

Pairs(cs) == [i \in 1..Len(cs) |-> <<cs[i].island, cs[i].source>>]
Uuids(cs) == {cs[i].uuid : i \in 1..Len(cs)}

RowOK(c) ==
    Clause("a_ge_b_gt_0", c.a_mas >= c.b_mas /\ c.b_mas > 0)
    \o Clause("pa_in_(-90,90]", c.pa_udeg > -90000000 /\ c.pa_udeg <= 90000000)
    \o Clause("ra_in_[0,360)", c.ra_udeg >= 0 /\ c.ra_udeg < 360000000)
    \o Clause("dec_in_[-90,90]", c.dec_udeg >= -90000000 /\ c.dec_udeg <= 90000000)
    \o Clause("flags_use_documented_bits", c.flags >= 0 /\ c.flags <= 127)
    \o Clause("errors_positive_finite_or_minus_one",
              c.fitok => \A k \in 1..Len(c.errk) : c.errk[k] \in {0, 1})
    \o Clause("sexagesimal_fields_in_range",
              c.rah >= 0 /\ c.rah < 24 /\ c.ram >= 0 /\ c.ram < 60 /\ c.racs >= 0 /\ c.racs < 6000
              /\ c.ded >= 0 /\ c.ded <= 90 /\ c.dem >= 0 /\ c.dem < 60 /\ c.decs >= 0 /\ c.decs < 6000)
    \o Clause("strings_agree_with_decimal_coordinates",
              c.radev_ndeg <= HalfUnitRA /\ c.dedev_ndeg <= HalfUnitDec)
    \o Clause("int_flux_is_peak_times_area_ratio",
              c.fitok => (c.lnr_unep >= -Ln101 /\ c.lnr_unep <= Ln101))

RECURSIVE RowsOK(_, _)
RowsOK(cs, k) == IF k > Len(cs) THEN <<>>
                 ELSE LET F == RowOK(cs[k]) IN
                      IF F # <<>> THEN <<"row " \o ToString(k)>> \o F ELSE RowsOK(cs, k + 1)

IslandRowsOK(r) ==
    LET comps == r.comps
        isl == r.islrows
        orc == r.oracle
        NComp(i) == Cardinality({k \in 1..Len(comps) : comps[k].island = i})
        Orc(i) == CHOOSE k \in 1..Len(orc) : orc[k].num = i
    IN Clause("island_row_for_every_fitted_island",
              {comps[k].island : k \in 1..Len(comps)} \subseteq {isl[k].island : k \in 1..Len(isl)})
       \o Clause("island_component_count", \A k \in 1..Len(isl) : isl[k].components = NComp(isl[k].island))
       \o Clause("island_is_a_detected_island",
                 \A k \in 1..Len(isl) : \E j \in 1..Len(orc) : orc[j].num = isl[k].island)
       \o (IF \A k \in 1..Len(isl) : \E j \in 1..Len(orc) : orc[j].num = isl[k].island
           THEN Clause("island_pixel_count", \A k \in 1..Len(isl) : isl[k].pixels = orc[Orc(isl[k].island)].npix)
                \o Clause("island_peak_pixel", \A k \in 1..Len(isl) : isl[k].peaktok = orc[Orc(isl[k].island)].peaktok)
                \o Clause("island_extent", \A k \in 1..Len(isl) : isl[k].extent = orc[Orc(isl[k].island)].extent)
           ELSE <<>>)

Fails(r) ==
    IF r.err # "" THEN <<"run_completed_without_aborting">> ELSE
    Clause("island_source_pairs_unique", PairsUnique(Pairs(r.comps)))
    \o Clause("components_numbered_from_0", Contiguous(Pairs(r.comps)))
    \o Clause("uuids_unique", Cardinality(Uuids(r.comps)) = Len(r.comps))
    \o RowsOK(r.comps, 1)
    \o (IF r.withislands THEN IslandRowsOK(r) ELSE <<>>)
    \o Clause("components_come_from_detected_islands",
              r.blind => \A k \in 1..Len(r.comps) : \E j \in 1..Len(r.oracle) :
                             /\ r.oracle[j].num = r.comps[k].island
                             /\ r.comps[k].inbox)
    \o Clause("rerun_in_same_process_identical", r.rerun = [k \in 1..Len(r.comps) |-> r.comps[k].tok])
    \o Clause("rerun_in_fresh_process_identical", r.fresh = [k \in 1..Len(r.comps) |-> r.comps[k].tok])
    \o Clause("saved_table_has_same_rows", r.saved = Pairs(r.comps))
    \* the catalogue a fresh finder object holds (what the command line program writes) is the
    \* catalogue of this run, whatever ran before in the same process
    \o Clause("finder_object_holds_exactly_this_run", r.attr = [k \in 1..Len(r.comps) |-> r.comps[k].tok]
                                                        /\ r.attr2 = r.rerun)

Next == BatchNext(Fails) /\ UNCHANGED <<mode, work, isle_num, batch, inbatch, rows>>
Spec == BatchInit /\ mode = "blind" /\ work = <<>> /\ isle_num = 0 /\ batch = 0 /\ inbatch = 0 /\ rows = <<>>
        /\ [][Next]_<<pos, mode, work, isle_num, batch, inbatch, rows>>
=============================================================================
