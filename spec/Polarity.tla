------------------------------ MODULE Polarity ------------------------------
(***************************************************************************)
(* C13 - sign symmetry and polarity filters of the source finder.          *)
(*                                                                         *)
(* Part 1 (partition).  A catalogue is a sequence of rows; a row carries   *)
(* the sign of its peak flux ("pos" / "neg") and an identity token (all    *)
(* other columns).  The finder is run with two switches                    *)
(*      nopositive : do not report rows with a positive peak               *)
(*      nonegative : do not report rows with a negative peak               *)
(* and the design is: the switches only FILTER the both-polarities         *)
(* catalogue - they change neither the rows nor their numbering.           *)
(*                                                                         *)
(* Part 2 (symmetry).  NegateRun(A, B): B is the both-polarities catalogue *)
(* of the negated image (and negated background), A that of the image.     *)
(* Rows are projected to scaled integers (see the units below); B must     *)
(* have the same number of rows and, paired in catalogue order, the same   *)
(* identification and flags, negated peak and integrated flux, and equal   *)
(* positions, shapes and errors.  The code path is algebraically sign      *)
(* symmetric but not bit identical, so "equal" is 1 ppm relative, or       *)
(* 1e-6 pixel for positions (DESIGN.md, C13).                              *)
(***************************************************************************)
EXTENDS Fixed, Sequences, FiniteSets

Signs == {"pos", "neg"}
Flip(s) == IF s = "pos" THEN "neg" ELSE "pos"

(* ------------------------------ filter -------------------------------- *)
Excluded(c, nopositive, nonegative) ==
    \/ c.sign = "pos" /\ nopositive
    \/ c.sign = "neg" /\ nonegative

Filter(cat, nopositive, nonegative) ==
    SelectSeq(cat, LAMBDA c : ~Excluded(c, nopositive, nonegative))

Rows(cat) == {cat[i] : i \in 1..Len(cat)}

Both(cat)    == Filter(cat, FALSE, FALSE)
PosOnly(cat) == Filter(cat, FALSE, TRUE)     \* nonegative
NegOnly(cat) == Filter(cat, TRUE, FALSE)     \* nopositive
Neither(cat) == Filter(cat, TRUE, TRUE)

\* the catalogue of the negated input: every sign flipped, nothing else
NegateCat(cat) == [i \in 1..Len(cat) |-> [cat[i] EXCEPT !.sign = Flip(@)]]

(* --------------------- theorems (checked by MC_Polarity) -------------- *)
WellSigned(cat) == \A i \in 1..Len(cat) : cat[i].sign \in Signs

BothIsAll(cat)      == Both(cat) = cat
NeitherIsEmpty(cat) == Neither(cat) = <<>>
Disjoint(cat)       == Rows(PosOnly(cat)) \cap Rows(NegOnly(cat)) = {}
Covers(cat)         == Rows(PosOnly(cat)) \cup Rows(NegOnly(cat)) = Rows(Both(cat))
CountsAdd(cat)      == Len(PosOnly(cat)) + Len(NegOnly(cat)) = Len(Both(cat))
SignsAsRequested(cat) ==
    /\ \A c \in Rows(PosOnly(cat)) : c.sign = "pos"
    /\ \A c \in Rows(NegOnly(cat)) : c.sign = "neg"
\* filtering the negated catalogue = negating the catalogue filtered with the
\* switches exchanged  (links part 1 and part 2)
NegationDuality(cat, np, nn) ==
    Filter(NegateCat(cat), np, nn) = NegateCat(Filter(cat, nn, np))
FilterIdempotent(cat, np, nn) ==
    Filter(Filter(cat, np, nn), np, nn) = Filter(cat, np, nn)

(* ------------------------- relations on runs -------------------------- *)
(* Observed runs: sequences of rows [sign, tok]; tok = identification      *)
(* (island, source) + float-identity of every column.  A run with          *)
(* switches (np, nn) conforms to the both-polarities run `both` iff its    *)
(* rows are exactly the filtered rows.  Set equality plus equal length:    *)
(* the property does not fix the order of rows.                            *)
RunIsFilterOf(run, both, np, nn) ==
    /\ Rows(run) = Rows(Filter(both, np, nn))
    /\ Len(run) = Len(Filter(both, np, nn))

(* ---------------------------- symmetry -------------------------------- *)
(* Units of the projected columns (integers, clamped to +-IntMax):         *)
(*   peak, int_          1e-6 flux units (image rms ~ 1 flux unit)         *)
(*   x, y                1e-7 pixel (sky position mapped to pixels with    *)
(*                       the FITS-standard WCS of the test image)          *)
(*   a, b                1e-6 arcsec          pa   1e-6 deg in (-90, 90]   *)
(*   e_peak, e_int       1e-8 flux units      e_a, e_b, e_ra, e_dec        *)
(*                                            1e-8 arcsec                  *)
(*   e_pa                1e-6 deg                                          *)
(*   isl, src, flags     integers as printed                               *)
PpmTol  == 1          \* relative tolerance, parts per million
PosTol  == 10         \* 1e-6 pixel in units of 1e-7 pixel
Slack   == 2          \* rounding of the two projected values
HalfPA  == 180000000  \* 180 deg in units of 1e-6 deg
PATol   == 180        \* 1 ppm of the half turn

Abs(x) == IF x < 0 THEN -x ELSE x
Max2(x, y) == IF x >= y THEN x ELSE y

\* |x - y| <= 1 ppm of max(|x|, |y|) (+ rounding slack); 32-bit safe
SameRel(x, y) == Within(x, y, PpmOf(Max2(Abs(x), Abs(y)), PpmTol) + Slack)

\* position angles are axes: equal modulo 180 deg
SamePA(x, y) ==
    \/ Within(x, y, PATol)
    \/ Within(x, y + HalfPA, PATol) \/ Within(x + HalfPA, y, PATol)

SameIds(a, b)      == a.isl = b.isl /\ a.src = b.src
SameFlags(a, b)    == a.flags = b.flags
PeakNegated(a, b)  == SameRel(b.peak, -a.peak) /\ (a.peak > 0 <=> b.peak < 0)
                                               /\ (a.peak < 0 <=> b.peak > 0)
IntNegated(a, b)   == SameRel(b.int_, -a.int_)
SamePosition(a, b) == Within(a.x, b.x, PosTol) /\ Within(a.y, b.y, PosTol)
SameShape(a, b)    == SameRel(a.a, b.a) /\ SameRel(a.b, b.b) /\ SamePA(a.pa, b.pa)
SameErrors(a, b)   ==
    /\ SameRel(a.e_peak, b.e_peak) /\ SameRel(a.e_int, b.e_int)
    /\ SameRel(a.e_a, b.e_a) /\ SameRel(a.e_b, b.e_b) /\ SameRel(a.e_pa, b.e_pa)
    /\ SameRel(a.e_ra, b.e_ra) /\ SameRel(a.e_dec, b.e_dec)

NegRow(a, b) ==
    /\ SameIds(a, b) /\ SameFlags(a, b)
    /\ PeakNegated(a, b) /\ IntNegated(a, b)
    /\ SamePosition(a, b) /\ SameShape(a, b) /\ SameErrors(a, b)

NegateRun(A, B) ==
    /\ Len(A) = Len(B)
    /\ \A i \in 1..Len(A) : NegRow(A[i], B[i])

\* every pair satisfies P (only meaningful when the lengths agree)
AllPairs(A, B, P(_, _)) == \A i \in 1..Len(A) : P(A[i], B[i])
=============================================================================
