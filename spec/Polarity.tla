------------------------------ MODULE Polarity ------------------------------
(***************************************************************************)
(* C13 - sign symmetry and polarity filters of the source finder.          *)
(*                                                                         *)
(* Part 1 (partition).  A catalogue is a sequence of rows; a row carries   *)
(* the sign of its peak flux ("pos" / "neg") and an identity token (all    *)
(* other columns).  The finder is run with two switches                    *)
(*      nopositive : do not report rows with a positive peak               *)
(*      nonegative : do not report rows with a negative peak               *)
(* and the design is: the switches only FILTER the both-polarities         *)
(* catalogue - they change neither the rows nor their numbering.           *)
(*                                                                         *)
(* Part 2 (symmetry).  NegateRun(A, B): B is the both-polarities catalogue *)
(* of the negated image (and negated background), A that of the image.     *)
(* Rows are projected to scaled integers (see the units below); B must     *)
(* have the same number of rows and, paired in catalogue order, the same   *)
(* identification and flags, negated peak and integrated flux, and equal   *)
(* positions, shapes and errors ("equal" is defined in the symmetry        *)
(* section below).                                                         *)
(***************************************************************************)
EXTENDS Fixed, Sequences, FiniteSets

Signs == {"pos", "neg"}
Flip(s) == IF s = "pos" THEN "neg" ELSE "pos"

(* ------------------------------ filter -------------------------------- *)
Excluded(c, nopositive, nonegative) ==
    \/ c.sign = "pos" /\ nopositive
    \/ c.sign = "neg" /\ nonegative

Filter(cat, nopositive, nonegative) ==
    SelectSeq(cat, LAMBDA c : ~Excluded(c, nopositive, nonegative))

Rows(cat) == {cat[i] : i \in 1..Len(cat)}

Both(cat)    == Filter(cat, FALSE, FALSE)
PosOnly(cat) == Filter(cat, FALSE, TRUE)     \* nonegative
NegOnly(cat) == Filter(cat, TRUE, FALSE)     \* nopositive
Neither(cat) == Filter(cat, TRUE, TRUE)

\* the catalogue of the negated input: every sign flipped, nothing else
NegateCat(cat) == [i \in 1..Len(cat) |-> [cat[i] EXCEPT !.sign = Flip(@)]]

(* --------------------- theorems (checked by MC_Polarity) -------------- *)
WellSigned(cat) == \A i \in 1..Len(cat) : cat[i].sign \in Signs

BothIsAll(cat)      == Both(cat) = cat
NeitherIsEmpty(cat) == Neither(cat) = <<>>
Disjoint(cat)       == Rows(PosOnly(cat)) \cap Rows(NegOnly(cat)) = {}
Covers(cat)         == Rows(PosOnly(cat)) \cup Rows(NegOnly(cat)) = Rows(Both(cat))
CountsAdd(cat)      == Len(PosOnly(cat)) + Len(NegOnly(cat)) = Len(Both(cat))
SignsAsRequested(cat) ==
    /\ \A c \in Rows(PosOnly(cat)) : c.sign = "pos"
    /\ \A c \in Rows(NegOnly(cat)) : c.sign = "neg"
\* filtering the negated catalogue = negating the catalogue filtered with the
\* switches exchanged  (links part 1 and part 2)
NegationDuality(cat, np, nn) ==
    Filter(NegateCat(cat), np, nn) = NegateCat(Filter(cat, nn, np))
FilterIdempotent(cat, np, nn) ==
    Filter(Filter(cat, np, nn), np, nn) = Filter(cat, np, nn)

(* ------------------------- relations on runs -------------------------- *)
(* Observed runs: sequences of rows [sign, tok]; tok = identification      *)
(* (island, source) + float-identity of every column.  A run with          *)
(* switches (np, nn) conforms to the both-polarities run `both` iff its    *)
(* rows are exactly the filtered rows.  Set equality plus equal length:    *)
(* the property does not fix the order of rows.                            *)
RunIsFilterOf(run, both, np, nn) ==
    /\ Rows(run) = Rows(Filter(both, np, nn))
    /\ Len(run) = Len(Filter(both, np, nn))

(* ---------------------------- symmetry -------------------------------- *)
(* Units of the projected columns (integers, clamped to +-IntMax; a        *)
(* missing / NaN value is -IntMax on both sides):                          *)
(*   peak, int_          1e-6 flux units (image rms ~ 1 flux unit)         *)
(*   e_peak, e_int       1e-8 flux units                                   *)
(*   x, y                1e-7 pixel (sky position mapped to pixels with    *)
(*                       the FITS-standard WCS of the test image)          *)
(*   e_ra, e_dec         1e-7 pixel (reported error / pixel scale)         *)
(*   a, b                1e-7 pixel (reported arcsec / pixel scale)        *)
(*   e_a, e_b            1e-9 pixel                                        *)
(*   pa, e_pa            1e-6 deg; pa in (-90, 90] (an axis)               *)
(*   isl, src, flags     integers as printed; src = -1 for an island row   *)
(*                                                                         *)
(* Two levels of "equal":                                                  *)
(*  strict  : 1 ppm relative / 1e-6 pixel / 1 ppm of 180 deg.  The code    *)
(*            path is sign symmetric operation by operation except inside  *)
(*            the optimiser (lmfit maps a bounded parameter through        *)
(*            arcsin((v-min)/(max-min)), which is not bit-symmetric under  *)
(*            min,max -> -max,-min); well-conditioned fits agree to        *)
(*            ~1e-10.  Reported for information.                           *)
(*  verdict : a fit that ends pinned at a parameter limit amplifies that   *)
(*            rounding (sqrt loss at the arcsin end points), the two       *)
(*            Levenberg-Marquardt runs stop after different numbers of     *)
(*            iterations and the results differ by the optimiser's         *)
(*            termination tolerance.  Measured on 48 000 row pairs:        *)
(*            99.8 % agree to < 1e-6 relative; components of single-       *)
(*            component islands differ by <= 0.002 of their quoted 1-sigma *)
(*            error (errors: <= 4e-4 relative); components of blended      *)
(*            (multi-component) islands by up to 0.53 sigma with a heavy   *)
(*            tail (errors: <= 2 %): the deblending fit is ill-conditioned.*)
(*            The property cannot mean to forbid that, so a value may      *)
(*            differ by the strict tolerance or by a fraction of the row's *)
(*            own quoted 1-sigma error (1/4; 3 for a blended island),      *)
(*            whichever is larger; quoted errors may differ by 5 % (25 %   *)
(*            blended).  The reported angle error is |bearing difference|  *)
(*            after rotating by the fitted theta error: when that exceeds  *)
(*            half a turn (circular fit) it is an arbitrary number in      *)
(*            [0, 360), so it is not compared when the fitted ellipse is   *)
(*            circular or when either run reports an angle error beyond    *)
(*            Unconstrained.  A row the finder itself flags as a failed    *)
(*            fit (FITERR, bit 0) carries no errors (-1): only identity,   *)
(*            flags and sign are compared.                                 *)
PpmTol  == 1          \* relative tolerance, parts per million
PosTol  == 10         \* 1e-6 pixel in units of 1e-7 pixel
Slack   == 2          \* rounding of the two projected values
HalfPA  == 180000000  \* 180 deg in units of 1e-6 deg
PATol   == 180        \* 1 ppm of the half turn
Unconstrained == 30000000   \* 30 deg
\* verdict level: quoted errors equal within 1/ErrDiv (5 %; 25 % blended)
ErrDiv(blended) == IF blended THEN 4 ELSE 20

Abs(x) == IF x < 0 THEN -x ELSE x
Max2(x, y) == IF x >= y THEN x ELSE y

\* |x - y| <= 1 ppm of max(|x|, |y|) (+ rounding slack); 32-bit safe
RelTol(x, y) == PpmOf(Max2(Abs(x), Abs(y)), PpmTol) + Slack
SameRel(x, y) == Within(x, y, RelTol(x, y))

\* the verdict fraction of the larger quoted error: 1/4 sigma, 3 sigma for a
\* component of a blended island (errors logged in units `div` times finer
\* than the value); 0 when no error is quoted (-1, NaN); 32-bit safe
SigmaTol(e1, e2, div, blended) ==
    LET m == Max2(e1, e2) IN
    IF m <= 0 THEN 0
    ELSE IF ~blended THEN m \div (div * 4)
    ELSE IF m \div div > 700000000 THEN IntMax ELSE 3 * (m \div div)

SameVal(x, y, e1, e2, div, blended) ==
    Within(x, y, Max2(RelTol(x, y), SigmaTol(e1, e2, div, blended)))

\* position angles are axes: equal modulo 180 deg
PAWithin(x, y, t) ==
    \/ Within(x, y, t)
    \/ Within(x, y + HalfPA, t) \/ Within(x + HalfPA, y, t)
SamePA(x, y) == PAWithin(x, y, PATol)

SameErr(x, y, ed) == Within(x, y, Max2(Abs(x), Abs(y)) \div ed + Slack)

Circular(a) == a.a > 0 /\ Within(a.a, a.b, a.a \div 10000)
SameErrPA(a, b, ed) ==
    \/ SameErr(a.e_pa, b.e_pa, ed)
    \/ a.e_pa >= Unconstrained \/ b.e_pa >= Unconstrained
    \/ Circular(a) /\ Circular(b)

FitFailed(a) == a.flags % 2 = 1

\* a component of an island that has more than one component row
Blended(A, i) == A[i].src >= 0 /\
                 \E j \in 1..Len(A) : j # i /\ A[j].isl = A[i].isl /\ A[j].src >= 0

SameIds(a, b)      == a.isl = b.isl /\ a.src = b.src
SameFlags(a, b)    == a.flags = b.flags
SignNegated(a, b)  == (a.peak > 0 <=> b.peak < 0) /\ (a.peak < 0 <=> b.peak > 0)

\* ---- strict (information) ----
PeakNegatedStrict(a, b)  == SameRel(b.peak, -a.peak) /\ SignNegated(a, b)
IntNegatedStrict(a, b)   == SameRel(b.int_, -a.int_)
SamePositionStrict(a, b) == Within(a.x, b.x, PosTol) /\ Within(a.y, b.y, PosTol)
SameShapeStrict(a, b)    == SameRel(a.a, b.a) /\ SameRel(a.b, b.b) /\ SamePA(a.pa, b.pa)
SameErrorsStrict(a, b)   ==
    /\ SameRel(a.e_peak, b.e_peak) /\ SameRel(a.e_int, b.e_int)
    /\ SameRel(a.e_a, b.e_a) /\ SameRel(a.e_b, b.e_b) /\ SameRel(a.e_pa, b.e_pa)
    /\ SameRel(a.e_ra, b.e_ra) /\ SameRel(a.e_dec, b.e_dec)
NegRowStrict(a, b) ==
    /\ SameIds(a, b) /\ SameFlags(a, b)
    /\ PeakNegatedStrict(a, b) /\ IntNegatedStrict(a, b)
    /\ SamePositionStrict(a, b) /\ SameShapeStrict(a, b) /\ SameErrorsStrict(a, b)

\* ---- verdict (bl: the row is a component of a blended island) ----
PeakNegated(a, b, bl) ==
    /\ SignNegated(a, b)
    /\ FitFailed(a) \/ SameVal(b.peak, -a.peak, a.e_peak, b.e_peak, 100, bl)
IntNegated(a, b, bl) ==
    FitFailed(a) \/ SameVal(b.int_, -a.int_, a.e_int, b.e_int, 100, bl)
SamePosition(a, b, bl) ==
    \/ FitFailed(a)
    \/ LET t == Max2(PosTol, SigmaTol(Max2(a.e_ra, a.e_dec), Max2(b.e_ra, b.e_dec), 1, bl))
       IN Within(a.x, b.x, t) /\ Within(a.y, b.y, t)
SameShape(a, b, bl) ==
    \/ FitFailed(a)
    \/ /\ SameVal(a.a, b.a, a.e_a, b.e_a, 100, bl)
       /\ SameVal(a.b, b.b, a.e_b, b.e_b, 100, bl)
       /\ \/ Circular(a) /\ Circular(b)
          \/ PAWithin(a.pa, b.pa, Max2(PATol, SigmaTol(a.e_pa, b.e_pa, 1, bl)))
SameErrors(a, b, bl) ==
    LET ed == ErrDiv(bl) IN
    /\ SameErr(a.e_peak, b.e_peak, ed) /\ SameErr(a.e_int, b.e_int, ed)
    /\ SameErr(a.e_a, b.e_a, ed) /\ SameErr(a.e_b, b.e_b, ed) /\ SameErrPA(a, b, ed)
    /\ SameErr(a.e_ra, b.e_ra, ed) /\ SameErr(a.e_dec, b.e_dec, ed)

NegRow(a, b, bl) ==
    /\ SameIds(a, b) /\ SameFlags(a, b)
    /\ PeakNegated(a, b, bl) /\ IntNegated(a, b, bl)
    /\ SamePosition(a, b, bl) /\ SameShape(a, b, bl) /\ SameErrors(a, b, bl)

NegateRun(A, B) ==
    /\ Len(A) = Len(B)
    /\ \A i \in 1..Len(A) : NegRow(A[i], B[i], Blended(A, i))

NegateRunStrict(A, B) ==
    /\ Len(A) = Len(B)
    /\ \A i \in 1..Len(A) : NegRowStrict(A[i], B[i])

\* every pair satisfies P (only meaningful when the lengths agree)
AllPairs(A, B, P(_, _)) == \A i \in 1..Len(A) : P(A[i], B[i])
AllPairsBl(A, B, P(_, _, _)) == \A i \in 1..Len(A) : P(A[i], B[i], Blended(A, i))
=============================================================================
