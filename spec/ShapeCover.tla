----------------------------- MODULE ShapeCover -----------------------------
(***************************************************************************)
(* C09 - "Circle and polygon regions cover their shape and nothing far     *)
(* from it".                                                               *)
(*                                                                         *)
(* A region built (add_circles / add_poly) at resolution `depth` is        *)
(* observed through membership queries (Region.sky_within) and its area    *)
(* (Region.get_area).  The rule below is the property, over integers:      *)
(*                                                                         *)
(*   angles  : micro-degrees (udeg).  A query carries the great-circle     *)
(*             distance `dist` of the queried position from the centre of  *)
(*             the circle (resp. of the polygon's circumscribed circle);   *)
(*             for polygons also the signed angular distances of the       *)
(*             position from the great circles of the edges (positive on   *)
(*             the polygon's side).                                        *)
(*   areas   : "scaled areas" <<m, lev>> = m thousandths of one level-lev  *)
(*             sky pixel (the sphere has 12 * 4^lev of them), so that both *)
(*             tiny caps and large regions fit 32-bit integers.            *)
(*                                                                         *)
(*   circle (centre, r, depth):                                            *)
(*        dist <= r                        =>  answer                      *)
(*        dist >  r + 3 * PixSize(depth)   => ~answer                      *)
(*        CapArea(r) <= area <= CapArea(r + 3 * PixSize(depth))            *)
(*   convex polygon with circumscribed circle (centre, R), depth:          *)
(*        position on the inner side of every edge  =>  answer             *)
(*        dist >  R + 3 * PixSize(depth)            => ~answer             *)
(*   positions in the open annulus are unconstrained.                      *)
(***************************************************************************)
EXTENDS Integers, Sequences

RECURSIVE Pow2(_), Pow4(_)
Pow2(n) == IF n <= 0 THEN 1 ELSE 2 * Pow2(n - 1)
Pow4(n) == IF n <= 0 THEN 1 ELSE 4 * Pow4(n - 1)
CeilDiv(a, b) == (a \div b) + (IF a % b = 0 THEN 0 ELSE 1)

(* ---- the pixel size: PixSize(d) = sqrt(4 pi / (12 * 4^d)) -------------- *)
\* sqrt(4 pi / 12) rad = 58.6323014283.. deg, rounded up to a micro-degree
PixSize0Udeg == 58632302
\* 4 pi / 12 steradian in centi-degree^2 (3437.74677.. deg^2), rounded
TwelfthSphereCdeg2 == 34377468

\* upper bound (ceiling) of the pixel size of level d in micro-degrees
PixSizeUp(d) == CeilDiv(PixSize0Udeg, Pow2(d))

\* the table for the depths of the property's quantifier (d = 1..12)
PixSizeTab == << 29316151, 14658076, 7329038, 3664519, 1832260, 916130,
                 458065, 229033, 114517, 57259, 28630, 14315 >>
PixSize(d) == PixSizeTab[d]

Margin(d) == 3 * PixSize(d)

(* ---- membership rule ---------------------------------------------------- *)
MustContain(r, dist)    == dist <= r
MustExclude(r, d, dist) == dist > r + Margin(d)

\* q = <<dist, answer>>
CircleQueryOK(r, d, q) ==
    /\ MustContain(r, q[1])    => q[2]
    /\ MustExclude(r, d, q[1]) => ~q[2]

\* q = <<dist from the circumcentre, answer, <<signed edge distances>> >>
PolyInterior(q) == \A k \in 1..Len(q[3]) : q[3][k] > 0
PolyQueryOK(R, d, q) ==
    /\ PolyInterior(q)          => q[2]
    /\ MustExclude(R, d, q[1]) => ~q[2]

(* ---- scaled areas -------------------------------------------------------- *)
\* a = <<m, lev>> stands for m / (1000 * 12 * 4^lev) of the sphere.
\* ALeq(a, b) is exactly  a.m / 4^a.lev <= b.m / 4^b.lev  without overflow
\* (all m < 2^31; 4^15 < 2^31 < 4^16).
ALeq(a, b) ==
    IF a[2] <= b[2]
    THEN LET k == b[2] - a[2] IN          \* a.m * 4^k <= b.m
         IF k > 15 THEN a[1] = 0 ELSE a[1] <= b[1] \div Pow4(k)
    ELSE LET k == a[2] - b[2] IN          \* a.m <= b.m * 4^k
         IF k > 15 THEN (IF a[1] > 0 THEN 1 ELSE 0) <= b[1]
         ELSE CeilDiv(a[1], Pow4(k)) <= b[1]

IsArea(a) == a[1] \in Nat /\ a[2] \in 0..29

\* area of n whole pixels of level lev
PixelsArea(n, lev) == <<1000 * n, lev>>

AreaBetweenCaps(area, caplo, caphi) == ALeq(caplo, area) /\ ALeq(area, caphi)

(* A spherical cap of radius rad is bracketed by pixel counts of any level   *)
(* L: pixels whose centre is within rad - 2 PixSize(L) lie wholly inside     *)
(* the cap (no point of a pixel is farther than 1.05 PixSize from its        *)
(* centre) and are disjoint; every point of the cap lies in a pixel whose    *)
(* centre is within rad + 2 PixSize(L).  cnt = [lev, rin, nin, rout, nout]:  *)
(* nin / nout = number of level-lev pixel centres within rin / rout.         *)
CapBracketed(cap, rad, cnt) ==
    /\ cnt.lev \in 0..29 /\ cnt.nin \in 0..2000000 /\ cnt.nout \in 0..2000000
    /\ cnt.rin >= 0
    /\ cnt.rin + 2 * PixSizeUp(cnt.lev) <= rad
    /\ cnt.rout >= rad + 2 * PixSizeUp(cnt.lev)
    /\ ALeq(PixelsArea(cnt.nin, cnt.lev), cap)
    /\ ALeq(cap, PixelsArea(cnt.nout, cnt.lev))
    \* "loosely": the bracket itself must be informative (within a factor 2)
    /\ cnt.nin > 0 /\ cnt.nout <= 2 * cnt.nin

(* ---- configuration lattice of the property's quantifier ------------------ *)
\* ra0 = (0.0, random dec); ra360 = (2 pi - eps, random dec); origin_int = the
\* position ra = 0, dec = 0 written as integers (0, 0)
CentreClasses == {"generic", "npole", "spole", "ra0", "ra360", "origin_int"}
Depths        == 3..12
\* nominal radius (circle) / circumradius (polygon) in micro-degrees
RadiusClasses == {10000, 1000000, 20000000, 60000000}
UnitClasses   == {"rad", "deg"}            \* deg = sky_within(degin=True)
FormClasses   == {"scalar", "vector"}
Shapes        == {0} \cup (3..8)           \* 0 = circle, n = polygon with n vertices

Lattice == [cclass : CentreClasses, depth : Depths, rnom : RadiusClasses,
            units : UnitClasses, form : FormClasses, nv : Shapes]

\* radii drawn for a class stay below RadiusUpper(class)
RadiusUpper(rc) == IF rc = 60000000 THEN rc ELSE (rc \div 4) * 5
\* (1 - cos RadiusUpper)/2 in units of 1e-4, rounded up: the fraction of the
\* sphere inside the largest cap of the class
CapFrac10k(rc) == CASE rc = 10000    -> 1
                    [] rc = 1000000  -> 2
                    [] rc = 20000000 -> 469
                    [] rc = 60000000 -> 2500

NPix(d) == 12 * Pow4(d)
\* expected number of depth-d pixels of a shape of the class (upper bound)
ExpectedPix(d, rc) == ((NPix(d) \div 1000) * CapFrac10k(rc)) \div 10
=============================================================================
