-------------------------------- MODULE Bane --------------------------------
(***************************************************************************)
(* Concurrency model of BANE.filter_mc_sharemem / sigma_filter (C07).      *)
(*                                                                         *)
(* The image is cut into NS horizontal stripes; each stripe is one task of *)
(* a multiprocessing pool of PoolSize worker slots (maxtasksperchild=1:    *)
(* a finished task frees its slot).  Every task runs                       *)
(*   p1   : compute background of its rows, write it to shared memory      *)
(*   b1   : barrier.wait()                                                 *)
(*   r1   : [as originally coded] the party that got index 0 calls reset() *)
(*   p2   : read background (own rows, and - repaired code - the overlap   *)
(*          rows owned by the neighbouring stripes), write noise           *)
(*   b2, r2, mask : only when masking is on                                *)
(* The barrier is Python's threading/multiprocessing Barrier:              *)
(*   bstate : 0 filling, 1 draining, -1 resetting, -2 broken               *)
(*   bcount : number of parties inside wait()                              *)
(* The parent waits in map_async(...).get(), which completes only when     *)
(* EVERY task has finished (successfully or not), then unlinks the shared  *)
(* memory in a finally block.                                              *)
(*                                                                         *)
(* Design switches (TRUE = the repaired tree, FALSE = as originally coded) *)
(* let TLC exhibit the design-level counterexamples:                       *)
(*   FixPool    pool has at least as many slots as barrier parties         *)
(*   FixNoReset no barrier.reset() after wait()                            *)
(*   FixAbort   a failing task aborts the barrier before re-raising        *)
(*   FixOverlap pass 2 subtracts the neighbours' background in the overlap *)
(*              rows (reads other stripes' rows after barrier 1)           *)
(***************************************************************************)
EXTENDS Integers, Sequences, FiniteSets, TLC

CONSTANTS Confs,       \* set of configurations [ns, cores, domask, fs, fp] to explore
          FixPool, FixNoReset, FixAbort, FixOverlap

VARIABLE conf          \* the configuration of this run (chosen initially, never changes)

NS          == conf.ns      \* number of realised stripes (= barrier parties)
Cores       == conf.cores   \* requested worker count
DoMask      == conf.domask  \* BOOLEAN
FaultStripe == conf.fs      \* 0 = no fault, else the stripe that fails
FaultPoint  == conf.fp      \* one of FaultPoints (ignored when fs = 0)

Stripe == 1..NS
FaultPoints == {"start", "p1_done", "b1_after", "p2_done", "b2_after", "mask_done"}

VARIABLES pending,   \* tasks not yet started, in submission order
          pc,        \* pc[s] : program counter of task s
          bcount, bstate,
          idx,       \* idx[s] : index returned by the last wait() of s
          bkgw,      \* set of stripes whose background rows are written
          rmsw,      \* set of stripes whose noise rows are written
          masked,    \* set of stripes whose mask has been applied
          readOK,    \* every cross-stripe read so far saw final data
          failed,    \* set of failed tasks
          mainpc,    \* "waiting" | "returned" | "raised"
          shm        \* "linked" | "unlinked"

vars == <<conf, pending, pc, bcount, bstate, idx, bkgw, rmsw, masked, readOK, failed, mainpc, shm>>

PoolSize == IF FixPool THEN (IF NS > Cores THEN NS ELSE Cores) ELSE Cores
Parties == NS

Live == {"p1", "b1", "b1w", "r1", "p2", "b2", "b2w", "r2", "mask"}
Running == {s \in Stripe : pc[s] \in Live}
Finished(s) == pc[s] \in {"done", "failed"}

Nbrs(s) == {j \in Stripe : j = s - 1 \/ j = s + 1}

InitRest ==
    /\ pending = [k \in 1..NS |-> k]
    /\ pc = [s \in Stripe |-> "queued"]
    /\ bcount = 0 /\ bstate = 0
    /\ idx = [s \in Stripe |-> -1]
    /\ bkgw = {} /\ rmsw = {} /\ masked = {}
    /\ readOK = TRUE
    /\ failed = {}
    /\ mainpc = "waiting"
    /\ shm = "linked"

Init == conf \in Confs /\ InitRest

\* ---- failure of a task (injected fault or broken barrier) ----------------
\* _sf2 catches, [repaired: aborts the barrier], re-raises; the slot is freed
FailUpd(s) ==
    /\ pc' = [pc EXCEPT ![s] = "failed"]
    /\ failed' = failed \cup {s}

AbortUpd == IF FixAbort THEN -2 ELSE bstate      \* barrier.abort(): state := broken

Faulty(s, point) == FaultStripe = s /\ FaultPoint = point

\* a task raises at hook point `point` instead of continuing
Fault(s, here, point) ==
    /\ pc[s] = here
    /\ Faulty(s, point)
    /\ FailUpd(s)
    /\ bstate' = AbortUpd
    /\ UNCHANGED <<pending, bcount, idx, bkgw, rmsw, masked, readOK, mainpc, shm>>

\* ---- pool ------------------------------------------------------------------
\* A free worker slot takes one of the next tasks.  Tasks are handed out in
\* submission order, but workers that picked up tasks concurrently reach their
\* first instruction in any order, so any of the first `free` pending tasks
\* may be the next one to start.
FreeSlots == PoolSize - Cardinality(Running)
RECURSIVE Without(_, _)
Without(q, x) == IF q = <<>> THEN <<>>
                 ELSE IF Head(q) = x THEN Tail(q) ELSE <<Head(q)>> \o Without(Tail(q), x)

StartTaskOf(s) ==
    /\ FreeSlots > 0
    /\ \E k \in 1..Len(pending) : k <= FreeSlots /\ pending[k] = s
    /\ pending' = Without(pending, s)
    /\ IF Faulty(s, "start")
       THEN FailUpd(s) /\ bstate' = AbortUpd
       ELSE pc' = [pc EXCEPT ![s] = "p1"] /\ UNCHANGED <<failed, bstate>>
    /\ UNCHANGED <<bcount, idx, bkgw, rmsw, masked, readOK, mainpc, shm>>

StartTask == \E s \in Stripe : StartTaskOf(s)

\* ---- phases ----------------------------------------------------------------
P1Write(s) ==
    /\ pc[s] = "p1" /\ ~Faulty(s, "p1_done")
    /\ bkgw' = bkgw \cup {s}
    /\ pc' = [pc EXCEPT ![s] = "b1"]
    /\ UNCHANGED <<pending, bcount, bstate, idx, rmsw, masked, readOK, failed, mainpc, shm>>

P1Fault(s) ==       \* the fault hits after the write, at the hook before wait()
    /\ pc[s] = "p1" /\ Faulty(s, "p1_done")
    /\ bkgw' = bkgw \cup {s}
    /\ FailUpd(s) /\ bstate' = AbortUpd
    /\ UNCHANGED <<pending, bcount, idx, rmsw, masked, readOK, mainpc, shm>>

\* barrier.wait() up to the point where the caller blocks or returns
Arrive(s, here, waiting, after) ==
    /\ pc[s] = here
    /\ bstate \notin {-1, 1}                    \* _enter(): block while draining / resetting
    /\ IF bstate = -2
       THEN /\ FailUpd(s)                       \* BrokenBarrierError
            /\ UNCHANGED <<bcount, bstate, idx>>
       ELSE IF bcount + 1 = Parties
            THEN /\ idx' = [idx EXCEPT ![s] = bcount]    \* last arriver: _release(), then _exit()
                 /\ bstate' = IF bcount = 0 THEN 0 ELSE 1
                 /\ pc' = [pc EXCEPT ![s] = after]
                 /\ UNCHANGED <<bcount, failed>>
            ELSE /\ idx' = [idx EXCEPT ![s] = bcount]
                 /\ bcount' = bcount + 1
                 /\ pc' = [pc EXCEPT ![s] = waiting]
                 /\ UNCHANGED <<bstate, failed>>
    /\ UNCHANGED <<pending, bkgw, rmsw, masked, readOK, mainpc, shm>>

\* a blocked waiter wakes up (state # filling), leaves the barrier
Leave(s, waiting, after) ==
    /\ pc[s] = waiting
    /\ bstate # 0
    /\ bcount' = bcount - 1
    /\ bstate' = IF bcount - 1 = 0 /\ bstate \in {-1, 1} THEN 0 ELSE bstate
    /\ IF bstate < 0
       THEN FailUpd(s)                          \* BrokenBarrierError
       ELSE pc' = [pc EXCEPT ![s] = after] /\ UNCHANGED failed
    /\ UNCHANGED <<pending, idx, bkgw, rmsw, masked, readOK, mainpc, shm>>

\* "if i == 0: barrier.reset()" - only in the original design
AfterWait(s, here, next, point) ==
    /\ pc[s] = here /\ ~Faulty(s, point)
    /\ IF ~FixNoReset /\ idx[s] = 0
       THEN bstate' = IF bcount > 0
                      THEN (IF bstate \in {0, -2} THEN -1 ELSE bstate)
                      ELSE 0
       ELSE UNCHANGED bstate
    /\ pc' = [pc EXCEPT ![s] = next]
    /\ UNCHANGED <<pending, bcount, idx, bkgw, rmsw, masked, readOK, failed, mainpc, shm>>

P2(s) ==
    /\ pc[s] = "p2" /\ ~Faulty(s, "p2_done")
    /\ readOK' = (readOK /\ s \in bkgw /\ (FixOverlap => Nbrs(s) \subseteq bkgw))
    /\ rmsw' = rmsw \cup {s}
    /\ pc' = [pc EXCEPT ![s] = IF DoMask THEN "b2" ELSE "done"]
    /\ UNCHANGED <<pending, bcount, bstate, idx, bkgw, masked, failed, mainpc, shm>>

P2Fault(s) ==
    /\ pc[s] = "p2" /\ Faulty(s, "p2_done")
    /\ rmsw' = rmsw \cup {s}
    /\ FailUpd(s) /\ bstate' = AbortUpd
    /\ UNCHANGED <<pending, bcount, idx, bkgw, masked, readOK, mainpc, shm>>

Mask(s) ==
    /\ pc[s] = "mask" /\ ~Faulty(s, "mask_done")
    /\ masked' = masked \cup {s}
    /\ pc' = [pc EXCEPT ![s] = "done"]
    /\ UNCHANGED <<pending, bcount, bstate, idx, bkgw, rmsw, readOK, failed, mainpc, shm>>

MaskFault(s) ==
    /\ pc[s] = "mask" /\ Faulty(s, "mask_done")
    /\ masked' = masked \cup {s}
    /\ FailUpd(s) /\ bstate' = AbortUpd
    /\ UNCHANGED <<pending, bcount, idx, bkgw, rmsw, readOK, mainpc, shm>>

TaskStep(s) ==
    \/ P1Write(s) \/ P1Fault(s)
    \/ Arrive(s, "b1", "b1w", "r1") \/ Leave(s, "b1w", "r1")
    \/ AfterWait(s, "r1", "p2", "b1_after") \/ Fault(s, "r1", "b1_after")
    \/ P2(s) \/ P2Fault(s)
    \/ Arrive(s, "b2", "b2w", "r2") \/ Leave(s, "b2w", "r2")
    \/ AfterWait(s, "r2", "mask", "b2_after") \/ Fault(s, "r2", "b2_after")
    \/ Mask(s) \/ MaskFault(s)

\* ---- parent ----------------------------------------------------------------
MainGet ==              \* MapResult is ready only when all tasks have finished
    /\ mainpc = "waiting"
    /\ pending = <<>> /\ \A s \in Stripe : Finished(s)
    /\ mainpc' = IF failed = {} THEN "returned" ELSE "raised"
    /\ UNCHANGED <<pending, pc, bcount, bstate, idx, bkgw, rmsw, masked, readOK, failed, shm>>

MainFinally ==
    /\ mainpc \in {"returned", "raised"} /\ shm = "linked"
    /\ shm' = "unlinked"
    /\ UNCHANGED <<pending, pc, bcount, bstate, idx, bkgw, rmsw, masked, readOK, failed, mainpc>>

Terminated == mainpc \in {"returned", "raised"} /\ shm = "unlinked"
Idle == Terminated /\ UNCHANGED vars

Step == StartTask \/ (\E s \in Stripe : TaskStep(s)) \/ MainGet \/ MainFinally
Next == (Step /\ UNCHANGED conf) \/ Idle

Fairness == WF_vars(Step /\ UNCHANGED conf)

Spec == Init /\ [][Next]_vars /\ Fairness

\* ---- properties (C07) -------------------------------------------------------
NoFault == FaultStripe = 0

TypeOK == /\ bcount \in 0..NS /\ bstate \in {0, 1, -1, -2}
          /\ Cardinality(Running) <= PoolSize

Termination       == <>Terminated
NoSpuriousFailure == NoFault => failed = {}
AllWritten        == (mainpc = "returned") =>
                        /\ bkgw = Stripe /\ rmsw = Stripe
                        /\ (DoMask => masked = Stripe)
RaceFree          == readOK
ShmSafe           == (shm = "unlinked") => mainpc # "waiting"
FaultPrompt       == (~NoFault) => <>(mainpc = "raised")
CleanReturn       == NoFault => <>(mainpc = "returned")
=============================================================================
