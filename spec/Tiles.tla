------------------------------- MODULE Tiles -------------------------------
(***************************************************************************)
(* Integer index algebra of AegeanTools/fits_tools.py                      *)
(*   - load_image_band : band i of n -> row range, header shift   (C20)    *)
(*   - compress/expand : decimation nodes, BN_* keywords, CRPIX   (C15)    *)
(*                                                                         *)
(* The *property level* definitions (Tiling, BandRecordOK, ExpandOK) do    *)
(* not fix a formula: any implementation that tiles / restores passes.     *)
(* The *design level* definitions (BandLo/BandHi, NodeRows, ...) are one   *)
(* admissible realisation; TLC proves on small constants that the design   *)
(* satisfies the property (module MC_Tiles), and the trace modules         *)
(* evaluate the property-level predicates on what the code returned.       *)
(***************************************************************************)
EXTENDS Integers, Sequences, FiniteSets

----------------------------------------------------------------------------
(* ---------------------------  C20 : bands  ----------------------------- *)

\* design: integer arithmetic (what a correct load_image_band computes)
BandLo(rows, n, i) == (rows * i) \div n
BandHi(rows, n, i) == (rows * (i + 1)) \div n

ValidBandSpec(i, n) == n > 0 /\ i >= 0 /\ i < n

\* property: a sequence b[1..n] of [lo, hi] records tiles 0..rows-1
Tiling(rows, n, b) ==
    /\ Len(b) = n
    /\ b[1].lo = 0
    /\ b[n].hi = rows
    /\ \A k \in 1..n : b[k].lo <= b[k].hi
    /\ \A k \in 1..(n-1) : b[k].hi = b[k+1].lo

\* every row is covered exactly once (follows from Tiling; checked separately
\* so that TLC confirms the two formulations agree)
CoveredOnce(rows, n, b) ==
    \A r \in 0..(rows-1) :
        Cardinality({k \in 1..n : b[k].lo <= r /\ r < b[k].hi}) = 1

DesignBands(rows, n) == [k \in 1..n |-> [lo |-> BandLo(rows, n, k-1),
                                         hi |-> BandHi(rows, n, k-1)]]

\* The header of band [lo,hi): NAXIS2 = hi-lo and CRPIX2 shifted by lo, so
\* that band pixel (r, c) and image pixel (r+lo, c) have the same world
\* coordinates (FITS: world = f(pix - CRPIX)); integer algebra only.
HeaderShiftOK(lo, hi, naxis2, dcrpix2) == naxis2 = hi - lo /\ dcrpix2 = lo

----------------------------------------------------------------------------
(* ----------------------  C15 : compress / expand  ---------------------- *)

Ceil(a, b) == (a + b - 1) \div b

\* decimation nodes along an axis of length R with factor f : 0, f, 2f ...
NNodes(R, f)   == Ceil(R, f)
NodeSet(R, f)  == {k * f : k \in 0..(NNodes(R, f) - 1)}
LastNode(R, f) == (NNodes(R, f) - 1) * f
IsNode(r, f)   == r % f = 0
Resid(R, f)    == R % f

\* compressed axis length: the nodes plus one copied last sample
CompLen(R, f) == NNodes(R, f) + 1
\* which original index each compressed sample holds
CompSrc(k, R, f) == IF k < NNodes(R, f) THEN k * f ELSE R - 1

\* a pixel lies in a complete cell along an axis iff it is not beyond the
\* last true decimation node
InComplete(r, R, f) == r <= LastNode(R, f)

\* CRPIX as a rational <<num, den>> : compress (p + f - 1)/f ; expand (q-1)f+1
CompressCrpix(p, f) == <<p[1] + (f - 1) * p[2], f * p[2]>>
ExpandCrpix(q, f)   == <<(q[1] - q[2]) * f + q[2], q[2]>>
RatEq(a, b)         == a[1] * b[2] = b[1] * a[2]

=============================================================================
