----------------------------- MODULE MC_Expand ------------------------------
(* Model-checking instance for C15: one image axis (the operation is       *)
(* separable) taken through Compress then Expand as coded in fits_tools:   *)
(* decimation nodes 0,f,2f.. + copied last sample; expansion by linear     *)
(* interpolation on node coordinates k*f (the copied last sample is placed *)
(* at NNodes*f, which is >= R-1, as coded).  Values are kept multiplied by *)
(* f so that the interpolation stays in the integers.                      *)
EXTENDS Tiles, TLC
CONSTANTS MaxR, MaxF, SmallR, Vals
VARIABLES R, f, img, pc, comp, outf, crpix, bn

vars == <<R, f, img, pc, comp, outf, crpix, bn>>

Affine(a, b) == [r \in 0..(MaxR - 1) |-> a + b * r]

Init == /\ R \in 2..MaxR
        /\ f \in 1..MaxF
        /\ \/ /\ R <= SmallR
              /\ img \in [0..(R-1) -> Vals]
           \/ /\ \E a \in {0, 7}, b \in {-3, 1, 5} :
                    img = [r \in 0..(R-1) |-> a + b * r]
        /\ pc = "orig" /\ comp = <<>> /\ outf = <<>>
        /\ crpix \in {<<1, 1>>, <<11, 2>>, <<-7, 1>>}
        /\ bn = FALSE

Compress ==
    /\ pc = "orig"
    /\ comp' = [k \in 0..(CompLen(R, f) - 1) |-> img[CompSrc(k, R, f)]]
    /\ crpix' = CompressCrpix(crpix, f)
    /\ bn' = TRUE
    /\ pc' = "compressed"
    /\ UNCHANGED <<R, f, img, outf>>

\* f * interpolated value at original index r
Interp(r) == LET k == r \div f
                 a == k * f
             IN (a + f - r) * comp[k] + (r - a) * comp[k + 1]

Expand ==
    /\ pc = "compressed"
    /\ outf' = [r \in 0..(R-1) |-> Interp(r)]
    /\ crpix' = ExpandCrpix(crpix, f)
    /\ bn' = FALSE
    /\ pc' = "expanded"
    /\ UNCHANGED <<R, f, img, comp>>

Next == Compress \/ Expand
Spec == Init /\ [][Next]_vars

IsAffine == \E a \in {0, 7}, b \in {-3, 1, 5} : \A r \in 0..(R-1) : img[r] = a + b * r
SetMin(S) == CHOOSE x \in S : \A y \in S : x <= y
SetMax(S) == CHOOSE x \in S : \A y \in S : x >= y
CompVals == {comp[k] : k \in DOMAIN comp}

NodeExact   == pc = "expanded" => \A r \in NodeSet(R, f) : outf[r] = f * img[r]
InRange     == pc = "expanded" => \A r \in 0..(R-1) :
                    /\ outf[r] >= f * SetMin(CompVals)
                    /\ outf[r] <= f * SetMax(CompVals)
AffineExact == (pc = "expanded" /\ IsAffine) =>
                    \A r \in 0..(R-1) : InComplete(r, R, f) => outf[r] = f * img[r]
CrpixBack   == pc = "expanded" => RatEq(crpix, <<1,1>>) \/ RatEq(crpix, <<11,2>>) \/ RatEq(crpix, <<-7,1>>)
KeysGone    == (pc = "expanded" => ~bn) /\ (pc = "compressed" => bn)
NodesInside == NodeSet(R, f) \subseteq 0..(R-1) /\ LastNode(R, f) <= R - 1 /\ CompLen(R, f) >= 2
=============================================================================
