--------------------------- MODULE Priorized_Trace --------------------------
(***************************************************************************)
(* C05: validation of real priorized_fit_islands runs.  One record per run *)
(*  stage, exact (the image is exactly the noise-free model of the         *)
(*  catalogue),                                                            *)
(*  inputs : [uuid, status ("ok"/"off"/"blank" - oracle: astropy position  *)
(*            rounded to a pixel, on the image and on a finite pixel),     *)
(*            errpos, errshape (float identity tokens of the input         *)
(*            uncertainties)]                                              *)
(*  outputs: [uuid, priorized (flag bit set), errpos, errshape,            *)
(*            dpos_in_1e6px  distance output position - INPUT position,    *)
(*            a_in_ppm, b_in_ppm, dpa_in_udeg  deviation from INPUT shape, *)
(*            flux_ppm deviation of the peak flux from the catalogue value,*)
(*            fitok]                                                       *)
(*  alone  : tokens of the outputs of the same run on the catalogue        *)
(*           without the rejected rows (non-interference), same order      *)
(*  toks   : tokens of the outputs of this run                             *)
(***************************************************************************)
EXTENDS TraceBatch

MaxRows == 0
Uuids == {}
FixCutout == TRUE
ImgSize == 0
MaxWidth == 0
VARIABLES cat, stage, out, phase
P == INSTANCE Priorized

Abs(x) == IF x < 0 THEN -x ELSE x
FrozenTol  == 50         \* unchanged values survive the sky->pixel->sky round trip to 50 ppm / 5e-5 px / 5e-5 deg
FluxTol    == 1000       \* 0.1 %
PosTol     == 10000      \* 0.01 px in 1e-6 px
ShapeTol   == 1000       \* 0.1 %
PaTolUdeg  == 57296      \* 0.1 % of a radian

Cat(r) == [i \in 1..Len(r.inputs) |-> [uuid |-> r.inputs[i].uuid, status |-> r.inputs[i].status]]
OutUuids(r) == [k \in 1..Len(r.outputs) |-> r.outputs[k].uuid]
In(r, u) == r.inputs[CHOOSE i \in 1..Len(r.inputs) : r.inputs[i].uuid = u]

Fails(r) ==
    IF r.err # "" THEN <<"handled_without_error">> ELSE
    Clause("at_most_one_row_per_accepted_source", P!AtMostOnePerAccepted(Cat(r), OutUuids(r)))
    \o (IF ~P!AtMostOnePerAccepted(Cat(r), OutUuids(r)) THEN <<>> ELSE
        Clause("priorized_flag_set", \A k \in 1..Len(r.outputs) : r.outputs[k].priorized)
        \o Clause("stage1_position_is_the_input_position",
                  P!PosFrozen(r.stage) => \A k \in 1..Len(r.outputs) : r.outputs[k].dpos_in_1e6px <= FrozenTol)
        \o Clause("stage1_position_errors_are_the_input_errors",
                  P!PosFrozen(r.stage) => \A k \in 1..Len(r.outputs) :
                        r.outputs[k].errpos = In(r, r.outputs[k].uuid).errpos)
        \o Clause("stage12_shape_is_the_input_shape",
                  P!ShapeFrozen(r.stage) => \A k \in 1..Len(r.outputs) :
                        /\ Abs(r.outputs[k].a_in_ppm) <= FrozenTol /\ Abs(r.outputs[k].b_in_ppm) <= FrozenTol
                        /\ (r.outputs[k].pa_defined => Abs(r.outputs[k].dpa_in_udeg) <= FrozenTol))
        \o Clause("stage12_shape_errors_are_the_input_errors",
                  P!ShapeFrozen(r.stage) => \A k \in 1..Len(r.outputs) :
                        r.outputs[k].errshape = In(r, r.outputs[k].uuid).errshape)
        \o Clause("exact_model_flux_recovered_0.1_percent",
                  r.exact => \A k \in 1..Len(r.outputs) : r.outputs[k].fitok => Abs(r.outputs[k].flux_ppm) <= FluxTol)
        \o Clause("exact_model_position_recovered_0.01_pixel",
                  (r.exact /\ r.stage >= 2) => \A k \in 1..Len(r.outputs) :
                        r.outputs[k].fitok => r.outputs[k].dpos_in_1e6px <= PosTol)
        \o Clause("exact_model_shape_recovered_0.1_percent",
                  (r.exact /\ r.stage >= 3) => \A k \in 1..Len(r.outputs) : r.outputs[k].fitok =>
                        /\ Abs(r.outputs[k].a_in_ppm) <= ShapeTol /\ Abs(r.outputs[k].b_in_ppm) <= ShapeTol
                        /\ (r.outputs[k].pa_defined => Abs(r.outputs[k].dpa_in_udeg) <= PaTolUdeg))
        \o Clause("rejected_sources_do_not_change_the_others", r.hasalone => r.alone = r.toks))

Next == BatchNext(Fails) /\ UNCHANGED <<cat, stage, out, phase>>
Spec == BatchInit /\ cat = <<>> /\ stage = 1 /\ out = {} /\ phase = "input"
        /\ [][Next]_<<pos, cat, stage, out, phase>>
=============================================================================
