------------------------------ MODULE AegeanCLI ------------------------------
(***************************************************************************)
(* Control flow of the `aegean` command line program (AegeanTools/CLI/     *)
(* aegean.py main): which of the option combinations find sources, refit   *)
(* a catalogue, save background files, write tables, and with which exit   *)
(* status.  Growth of the specification beyond the twenty listed           *)
(* properties (DESIGN.md section 7, item 2).                               *)
(*                                                                         *)
(* A configuration is a record of the option classes; the program is a     *)
(* straight-line machine of guarded early exits.  Outcome(c) is the same   *)
(* thing as a function; TLC checks that the machine computes Outcome for   *)
(* every configuration and the user-level facts below.                     *)
(***************************************************************************)
EXTENDS Integers, FiniteSets, TLC

Confs == [cite : BOOLEAN, tformats : BOOLEAN, versions : BOOLEAN,
          image : {"none", "missing", "ok"},
          nopositive : BOOLEAN, negative : BOOLEAN,
          save : BOOLEAN, find : BOOLEAN, prior : 0..3,
          input : {"none", "missing", "ok"},
          tables : {"none", "bad", "ok"},
          noise : {"none", "missing"},
          ratio : {"none", "neg", "ok"}]

Find(c) == ~((c.save \/ c.prior > 0) /\ ~c.find)     \* "find" is on unless save/priorized were asked for without --find

\* [rc, did] : exit status and the set of things done
Outcome(c) ==
    IF c.cite \/ c.tformats \/ c.versions THEN [rc |-> 0, did |-> {}]
    ELSE IF c.image = "none" THEN [rc |-> 0, did |-> {}]
    ELSE IF c.image = "missing" THEN [rc |-> 1, did |-> {}]
    ELSE IF c.nopositive /\ ~c.negative THEN [rc |-> 0, did |-> {}]
    ELSE IF c.noise = "missing" THEN [rc |-> 1, did |-> {}]
    ELSE IF c.save THEN [rc |-> 0, did |-> {"savedbkg"}]
    ELSE IF c.tables = "bad" THEN [rc |-> 1, did |-> {}]
    ELSE LET f == IF Find(c) THEN {"found"} ELSE {}
         IN IF c.prior > 0 /\ (c.ratio = "neg" \/ c.input # "ok")
            THEN [rc |-> 1, did |-> f]
            ELSE LET p == IF c.prior > 0 THEN {"prior"} ELSE {}
                     t == IF c.tables = "ok" /\ (f \cup p) # {} THEN {"tables"} ELSE {}
                 IN [rc |-> 0, did |-> f \cup p \cup t]

\* ---- the program as a machine of guarded early exits -----------------------
VARIABLES conf, pc, rc, did, findflag
vars == <<conf, pc, rc, did, findflag>>

Init == conf \in Confs /\ pc = "info" /\ rc = -1 /\ did = {} /\ findflag = FALSE

Exit(code) == pc' = "exit" /\ rc' = code /\ UNCHANGED <<conf, did, findflag>>
Goto(l)    == pc' = l /\ UNCHANGED <<conf, rc, did, findflag>>

Info      == pc = "info" /\ IF conf.cite \/ conf.tformats \/ conf.versions THEN Exit(0) ELSE Goto("image")
Image     == pc = "image" /\ IF conf.image = "none" THEN Exit(0)
                            ELSE IF conf.image = "missing" THEN Exit(1) ELSE Goto("polarity")
Polarity  == pc = "polarity" /\ IF conf.nopositive /\ ~conf.negative THEN Exit(0) ELSE Goto("findflag")
FindFlag  == pc = "findflag" /\ findflag' = Find(conf) /\ pc' = "aux" /\ UNCHANGED <<conf, rc, did>>
Aux       == pc = "aux" /\ IF conf.noise = "missing" THEN Exit(1) ELSE Goto("save")
Save      == pc = "save" /\ IF conf.save
                           THEN pc' = "exit" /\ rc' = 0 /\ did' = did \cup {"savedbkg"} /\ UNCHANGED <<conf, findflag>>
                           ELSE Goto("formats")
Formats   == pc = "formats" /\ IF conf.tables = "bad" THEN Exit(1) ELSE Goto("find")
DoFind    == pc = "find" /\ did' = (IF findflag THEN did \cup {"found"} ELSE did)
                         /\ pc' = "prior" /\ UNCHANGED <<conf, rc, findflag>>
DoPrior   == pc = "prior" /\
             IF conf.prior = 0 THEN Goto("tables")
             ELSE IF conf.ratio = "neg" \/ conf.input # "ok" THEN Exit(1)
             ELSE did' = did \cup {"prior"} /\ pc' = "tables" /\ UNCHANGED <<conf, rc, findflag>>
Tables    == pc = "tables" /\ did' = (IF conf.tables = "ok" /\ did # {} THEN did \cup {"tables"} ELSE did)
                           /\ pc' = "exit" /\ rc' = 0 /\ UNCHANGED <<conf, findflag>>

Next == Info \/ Image \/ Polarity \/ FindFlag \/ Aux \/ Save \/ Formats \/ DoFind \/ DoPrior \/ Tables
Spec == Init /\ [][Next]_vars

\* ---- checked facts ------------------------------------------------------------
MachineIsOutcome == pc = "exit" => (rc = Outcome(conf).rc /\ did = Outcome(conf).did)
SaveNeverFinds   == pc = "exit" => ~({"savedbkg", "found"} \subseteq did) /\ ~({"savedbkg", "prior"} \subseteq did)
TablesNeedSources == pc = "exit" => ("tables" \in did => (rc = 0 /\ did \cap {"found", "prior"} # {}))
FailureWritesNoTable == pc = "exit" => (rc = 1 => "tables" \notin did)
\* a failed priorized request may still have spent the time of a blind run whose result is then discarded
WastedFind == \E c \in Confs : Outcome(c).rc = 1 /\ "found" \in Outcome(c).did
ASSUME WastedFind
=============================================================================
