------------------------------- MODULE Region -------------------------------
(***************************************************************************)
(* Abstract machine of AegeanTools.regions.Region (C08, C12).              *)
(*                                                                         *)
(* State of the region under test (maximum depth D):                       *)
(*    S      : the set of deepest-level pixels it covers (set algebra)     *)
(*    answer : the result of the last call (queries, exports, errors)      *)
(* The multi-resolution representation the code keeps (pixeldict) is left  *)
(* free by the property; every representation `rep` that is observed must  *)
(* satisfy the predicates of RegionPreds relative to S.                    *)
(*                                                                         *)
(* One action per public call of regions.py.  Operands of binary calls are *)
(* records [depth |-> Do, rep |-> function level -> pixel set].  The       *)
(* effect of a call is given once, as the function Eff(s, c) of the        *)
(* current set and the call record c; the actions are defined through it,  *)
(* and the trace specification (Region_Trace) folds the same function over *)
(* recorded histories.                                                     *)
(***************************************************************************)
EXTENDS RegionPreds, Sequences, TLC

VARIABLES S, answer

rvars == <<S, answer>>

Universe == PixOf(NB, D)
NoAnswer == [kind |-> "none"]

OperandSet(o) == Demote(o.rep, D)      \* the operand seen at depth D
SameDepth(o)  == o.depth = D

Mutators == {"add_pixels", "add_shape", "union", "union_norenorm",
             "without", "intersect", "symmetric_difference"}
Queries  == {"get_demoted", "sky_within", "get_area", "save_load",
             "export_moc", "export_reg"}
\* calls after which the stored representation must be overlap free
Normalising == {"add_shape", "union", "without", "intersect", "symmetric_difference"}

\* effect of call c on covered set s : [S |-> new set, ans |-> answer]
Eff(s, c) ==
    CASE c.op \in {"add_pixels", "add_shape"} ->
            [S |-> s \cup DescSet(c.pix, c.level, D), ans |-> NoAnswer]
      [] c.op \in {"union", "union_norenorm"} ->
            [S |-> s \cup OperandSet(c.other), ans |-> NoAnswer]
      [] c.op \in {"without", "intersect", "symmetric_difference"} ->
            IF ~SameDepth(c.other) THEN [S |-> s, ans |-> [kind |-> "raised"]]
            ELSE LET o == OperandSet(c.other) IN
                 [S |-> CASE c.op = "without" -> s \ o
                          [] c.op = "intersect" -> s \cap o
                          [] OTHER -> (s \ o) \cup (o \ s),
                  ans |-> NoAnswer]
      [] c.op = "get_demoted" -> [S |-> s, ans |-> [kind |-> "set", val |-> s]]
      [] c.op = "sky_within"  -> [S |-> s, ans |-> [kind |-> "bool", val |-> (c.pix \in s)]]
      [] c.op = "get_area"    -> [S |-> s, ans |-> [kind |-> "int", val |-> Cardinality(s)]]
      [] c.op = "save_load"   -> [S |-> s, ans |-> NoAnswer]
      [] c.op \in {"export_moc", "export_reg"} ->
                                 [S |-> s, ans |-> [kind |-> "export", val |-> s]]

Do(c) == LET e == Eff(S, c) IN S' = e.S /\ answer' = e.ans

\* ---- actions ------------------------------------------------------------
Init == S = {} /\ answer = NoAnswer

AddPixels(P, d) == d \in 1..D /\ Do([op |-> "add_pixels", level |-> d, pix |-> P])
Union(o)        == Do([op |-> "union", other |-> o])
Without(o)      == SameDepth(o) /\ Do([op |-> "without", other |-> o])
Intersect(o)    == SameDepth(o) /\ Do([op |-> "intersect", other |-> o])
SymDifference(o) == SameDepth(o) /\ Do([op |-> "symmetric_difference", other |-> o])
RaiseDepth(o)   == ~SameDepth(o) /\ Do([op |-> "without", other |-> o])
GetDemoted      == Do([op |-> "get_demoted"])
SkyWithin(p)    == Do([op |-> "sky_within", pix |-> p])
GetArea         == Do([op |-> "get_area"])
SaveLoad        == Do([op |-> "save_load"])
ExportMoc       == Do([op |-> "export_moc"])
ExportReg       == Do([op |-> "export_reg"])
=============================================================================
