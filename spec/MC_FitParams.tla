---------------------------- MODULE MC_FitParams ----------------------------
(* Model-checking instance for C04 (mapping part).                         *)
(*                                                                         *)
(* Design level: the two loops of fitting.py as one little machine that    *)
(* walks components 1..n and parameters amp..theta.  For every free        *)
(* parameter it appends a Jacobian row (fitting.jacobian) and hands out    *)
(* the next entry j of the one-sigma vector (fitting.covar_errors).  TLC   *)
(* checks that this design realises the declarative FreeOrder / Assign of  *)
(* module FitParams for EVERY vary pattern of 1..MaxExh components and for *)
(* the covering sample Masks(M3)^3, Masks(M4)^4, and emits each pattern    *)
(* (they are the inputs replayed on the real code).                        *)
(*                                                                         *)
(* RestartPerComponent = TRUE is the negative control: a walk whose        *)
(* counter j restarts with every component must violate StderrThm.         *)
EXTENDS FitParams, TLC, Json
CONSTANTS MaxExh, M3, M4, RestartPerComponent, Emit
VARIABLES vary, i, p, rows, j, sidx, pc

vars == <<vary, i, p, rows, j, sidx, pc>>

T == TRUE
F == FALSE
MaskList == << <<T,T,T,T,T,T>>,     \* everything free
               <<F,F,F,F,F,F>>,     \* component held fixed
               <<T,T,T,F,F,F>>,     \* unresolved component: shape fixed
               <<F,F,F,F,F,T>>,     \* theta only
               <<T,F,F,F,F,F>>,     \* amp only (priorized, regroup)
               <<F,F,F,T,T,T>>,     \* shape only
               <<F,T,T,F,F,F>>,     \* position only
               <<T,T,T,T,T,F>> >>   \* all but theta
Masks(m) == {MaskList[k] : k \in 1..m}

Init ==
    /\ \/ \E n \in 1..MaxExh : vary \in [1..n -> [1..NP -> BOOLEAN]]
       \/ (M3 > 0 /\ vary \in [1..3 -> Masks(M3)])
       \/ (M4 > 0 /\ vary \in [1..4 -> Masks(M4)])
    /\ i = 1 /\ p = 1 /\ rows = <<>> /\ j = 0
    /\ sidx = [ip \in Pairs(vary) |-> 0]
    /\ pc = "walk"

Advance == /\ p' = p + 1
           /\ pc' = IF p < NP THEN "walk" ELSE "endcomp"
           /\ UNCHANGED <<vary, i>>

VisitFree ==
    /\ pc = "walk" /\ vary[i][p]
    /\ rows' = Append(rows, <<i, p>>)
    /\ j' = j + 1
    /\ sidx' = [sidx EXCEPT ![<<i, p>>] = j + 1]
    /\ Advance

VisitFixed ==
    /\ pc = "walk" /\ ~vary[i][p]
    /\ UNCHANGED <<rows, j, sidx>>
    /\ Advance

NextComponent ==
    /\ pc = "endcomp" /\ i < Len(vary)
    /\ i' = i + 1 /\ p' = 1 /\ pc' = "walk"
    /\ j' = IF RestartPerComponent THEN 0 ELSE j
    /\ UNCHANGED <<vary, rows, sidx>>

Finish ==
    /\ pc = "endcomp" /\ i = Len(vary)
    /\ pc' = "done"
    /\ Emit => PrintT(ToJson([vary  |-> vary,
                              order |-> [k \in 1..Len(rows) |-> CandIdx(rows[k])]]))
    /\ UNCHANGED <<vary, i, p, rows, j, sidx>>

Next == VisitFree \/ VisitFixed \/ NextComponent \/ Finish
Spec == Init /\ [][Next]_vars

Done == pc = "done"

(* ---- theorems about the declarative definitions (every pattern) ------- *)
WellFormedThm == WellFormed(vary)
LenThm        == Done => Len(FreeOrder(vary)) = NFree(vary)
InjThm        == Done => Injective(FreeOrder(vary))
OntoThm       == Done => {FreeOrder(vary)[k] : k \in 1..NFree(vary)} = Free(vary)
CharThm       == Done => IsFreeOrder(vary, FreeOrder(vary))
AssignTotalThm ==
    Done => LET a == AssignIdx(vary) fo == FreeOrder(vary)
            IN /\ DOMAIN a = Pairs(vary)
               /\ \A ip \in Free(vary) : a[ip] \in 1..NFree(vary) /\ fo[a[ip]] = ip
               /\ \A ip \in Pairs(vary) \ Free(vary) : a[ip] = 0
NoInheritThm  == Done => NoInheritance(vary, AssignIdx(vary))

(* ---- the walking design realises them -------------------------------- *)
RowsThm   == Done => rows = JacRows(vary) /\ IsFreeOrder(vary, rows)
StderrThm == Done => sidx = AssignIdx(vary)
CountThm  == Done => j = NFree(vary) /\ Len(rows) = NFree(vary)
=============================================================================
