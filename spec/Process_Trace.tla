--------------------------- MODULE Process_Trace ---------------------------
(* Trace validation for Process (growth check X02).                         *)
(* One record = one real Python process that executed a history of          *)
(* Process!Write / Process!Call steps emitted by MC_Process (or a seeded    *)
(* longer walk):                                                             *)
(*   kind "history": steps = sequence of                                    *)
(*        [op |-> "write", path, content]                                   *)
(*        [op |-> "call", call, path, same, intact]                         *)
(*      same   = the contents c for which the token of the observed result  *)
(*               is identical to the token the same call gave as the FIRST  *)
(*               call of a fresh process on contents c (float identity of   *)
(*               every returned number / written file)                      *)
(*      intact = the input file still holds the bytes that were written     *)
(*   kind "fresh": [call, content, ntok] number of distinct tokens seen     *)
(*               among all first calls (call, content) of fresh processes   *)
(* The record is accepted iff every call's result is the one Process!Call   *)
(* produces in the design "pure" for the file contents threaded through     *)
(* Process!Write.                                                            *)
EXTENDS TraceBatch

CONSTANTS Calls, Contents, Types
VARIABLES fs, hidden, out

P == INSTANCE Process WITH Paths <- {"P", "Q"}, Flagged <- {"G"}, Mutators <- {}, Accumulating <- {},
                           Design <- "pure"

SeqSet(q) == {q[k] : k \in 1..Len(q)}

RECURSIVE Walk(_, _, _)
Walk(steps, i, files) ==
    IF i > Len(steps) THEN <<>> ELSE
    LET s == steps[i] IN
    IF s.op = "write"
    THEN Clause("contents_in_alphabet", s.content \in Contents)
         \o Walk(steps, i + 1, [files EXCEPT ![s.path] = s.content])
    ELSE IF files[s.path] = P!None \/ s.call \notin Calls \/ ~P!Accepts(s.call, files[s.path])
         THEN <<"call_applicable_to_the_file">> ELSE
         LET want == P!ComputeOn(s.call, s.path, files[s.path]).res IN
         Clause("result_is_that_of_a_fresh_process",
                \E c \in SeqSet(s.same) : P!Fresh(s.call, c) = want)
         \o Clause("input_file_left_as_written", s.intact)
         \o Walk(steps, i + 1, files)

Fails(r) ==
    IF r.kind = "fresh" THEN Clause("fresh_processes_agree", r.ntok = 1)
    ELSE IF r.err # "" THEN <<"process_completed">>
    ELSE Walk(r.steps, 1, [p \in {"P", "Q"} |-> P!None])

Next == BatchNext(Fails) /\ UNCHANGED <<fs, hidden, out>>
Spec == BatchInit /\ P!Init /\ [][Next]_<<pos, fs, hidden, out>>
=============================================================================
